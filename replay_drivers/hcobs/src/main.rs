//! Native replay driver for Engine X counterexamples: runs the real public
//! Encoder / Decoder (chunk limits through hook H1) on a concrete input with
//! the given cuts and input methods and prints what it produced.
use std::num::NonZeroUsize;

fn parse_list(s: &str) -> Vec<usize> {
    s.split(',').filter(|x| !x.is_empty()).map(|x| x.parse().unwrap()).collect()
}

/// Reader that hands out at most `step` bytes per call.
struct Dribble<'a> {
    data: &'a [u8],
    step: usize,
}

impl std::io::Read for Dribble<'_> {
    fn read(&mut self, buf: &mut [u8]) -> std::io::Result<usize> {
        let n = buf.len().min(self.step).min(self.data.len());
        buf[..n].copy_from_slice(&self.data[..n]);
        self.data = &self.data[n..];
        Ok(n)
    }
}

/// C06 replay: the records StreamReader yields for `input` under several block sizes / read sizes.
fn stream_side(input: &[u8], max_size: Option<usize>, limit: Option<u64>) {
    for block in [None, Some(0usize), Some(1), Some(2), Some(3), Some(4), Some(5), Some(7)] {
        for step in [usize::MAX, 1, 2, 3] {
            let res = std::panic::catch_unwind(|| {
                let judge = hcobs::StreamReader::chunk_judge(max_size.unwrap_or(usize::MAX), limit);
                let mut src = Dribble { data: input, step };
                let mut reader = hcobs::StreamReader::new();
                let mut out = Vec::new();
                for _ in 0..(input.len() + 4) {
                    match reader.next_record_bytes(&mut src, &judge, block) {
                        Ok(Some((iov, range))) => out.push((iov.flatten().expect("no backpatch"), range.start, range.end)),
                        Ok(None) => return Some(out),
                        Err(_) => return None,
                    }
                }
                Some(out)
            });
            let text = match res {
                Err(_) => "PANIC".to_string(),
                Ok(None) => "IOERR".to_string(),
                Ok(Some(recs)) => recs
                    .iter()
                    .map(|(b, s, e)| format!("{}-{}:{}", s, e, b.iter().map(|x| x.to_string()).collect::<Vec<_>>().join(".")))
                    .collect::<Vec<_>>()
                    .join(";"),
            };
            println!("STREAM block={:?} step={} => {}", block, step, text);
        }
    }
}

/// C17 (codec wrappers) replay: encode_read / decode_read twice, for several read sizes.
fn readwrap_side(enc_side: bool, input: &[u8], counts: &[usize]) {
    let four = NonZeroUsize::new(4).unwrap();
    for step in [usize::MAX, 1, 2, 3] {
        let res = std::panic::catch_unwind(|| {
            let mut src = Dribble { data: input, step };
            let mut rets: Vec<String> = Vec::new();
            let out;
            if enc_side {
                let mut enc = hcobs::Encoder::new();
                for &c in counts {
                    match enc.encode_read(&mut src, c, four) {
                        Ok(n) => rets.push(n.to_string()),
                        Err(_) => rets.push("err".to_string()),
                    }
                }
                out = Some(enc.finish().flatten().expect("no pending backref"));
            } else {
                let mut dec = hcobs::Decoder::new();
                let mut failed = false;
                for &c in counts {
                    match dec.decode_read(&mut src, c, four) {
                        Ok(n) => rets.push(n.to_string()),
                        Err(_) => {
                            rets.push("err".to_string());
                            failed = true;
                            break;
                        }
                    }
                }
                out = if failed { None } else { dec.finish().ok().map(|iov| iov.flatten().expect("no pending backref")) };
            }
            (rets, input.len() - src.data.len(), out)
        });
        match res {
            Err(_) => println!("READWRAP step={} => PANIC", step),
            Ok((rets, consumed, out)) => println!(
                "READWRAP step={} => rets={} consumed={} out={}",
                step,
                rets.join(","),
                consumed,
                match out {
                    None => "none".to_string(),
                    Some(b) => b.iter().map(|x| x.to_string()).collect::<Vec<_>>().join("."),
                }
            ),
        }
    }
}

/// C10/C06 replay: how much the record buffer grows after the standard judge has answered SkipRecord.
fn stream_growth_side(input: &[u8], max_size: Option<usize>, limit: Option<u64>) {
    use std::cell::Cell;
    for block in [None, Some(2usize), Some(3), Some(4)] {
        for step in [usize::MAX, 1, 2] {
            let worst = Cell::new(0usize);
            let skipped_at: Cell<Option<usize>> = Cell::new(None);
            let res = std::panic::catch_unwind(std::panic::AssertUnwindSafe(|| {
                let inner = hcobs::StreamReader::chunk_judge(max_size.unwrap_or(usize::MAX), limit);
                let judge = |range: std::ops::Range<u64>, iov: owning_iovec::ConsumingIovec<'_>| {
                    let total = iov.total_size();
                    if total == 0 {
                        skipped_at.set(None); // a new record started
                    }
                    if let Some(t) = skipped_at.get() {
                        if total > t {
                            worst.set(worst.get().max(total - t));
                        }
                    }
                    let verdict = inner(range, iov);
                    if verdict == hcobs::StreamAction::SkipRecord && skipped_at.get().is_none() {
                        skipped_at.set(Some(total));
                    }
                    verdict
                };
                let mut src = Dribble { data: input, step };
                let mut reader = hcobs::StreamReader::new();
                for _ in 0..(input.len() + 4) {
                    match reader.next_record_bytes(&mut src, &judge, block) {
                        Ok(Some(_)) => {}
                        _ => break,
                    }
                }
            }));
            match res {
                Err(_) => println!("GROWTH block={:?} step={} => 999999", block, step),
                Ok(()) => println!("GROWTH block={:?} step={} => {}", block, step, worst.get()),
            }
        }
    }
}

fn main() {
    let args: Vec<String> = std::env::args().collect();
    let side = args[1].clone();
    let text = match args[2].strip_prefix('@') {
        Some(path) => std::fs::read_to_string(path).expect("input file"),
        None => args[2].clone(),
    };
    let input: Vec<u8> = parse_list(text.trim()).into_iter().map(|x| x as u8).collect();
    if side == "fss" {
        match std::panic::catch_unwind(|| hcobs::find_stuff_sequence(&input)) {
            Err(_) => println!("FSS PANIC"),
            Ok(None) => println!("FSS none"),
            Ok(Some(i)) => println!("FSS {}", i),
        }
        return;
    }
    if side == "stream-growth" {
        let opt = |s: &str| if s == "none" { None } else { Some(s.parse::<u64>().unwrap()) };
        stream_growth_side(&input, opt(&args[3]).map(|x| x as usize), opt(&args[4]));
        return;
    }
    if side == "stream" {
        let opt = |s: &str| if s == "none" { None } else { Some(s.parse::<u64>().unwrap()) };
        stream_side(&input, opt(&args[3]).map(|x| x as usize), opt(&args[4]));
        return;
    }
    if side == "advance" {
        // ConsumingIovec::advance_slices over borrowed slices of the given lengths (no placeholder pending:
        // the stable prefix is everything)
        let lens = parse_list(&args[3]);
        let count: usize = args[4].parse().unwrap();
        let res = std::panic::catch_unwind(|| {
            let mut iov = owning_iovec::OwningIovec::new();
            for (i, l) in lens.iter().enumerate() {
                let buf: &'static [u8] = Box::leak(vec![i as u8; *l].into_boxed_slice());
                iov.push_borrowed(buf);
            }
            // optionally: `begin` final bytes, a pending placeholder of `plen` bytes and a tail, all in the iovec's own arena
            if args.len() > 7 {
                let begin: usize = args[5].parse().unwrap();
                let plen: usize = args[6].parse().unwrap();
                let tail: usize = args[7].parse().unwrap();
                if begin > 0 {
                    iov.push_copy(&vec![9u8; begin]);
                }
                let token = iov.register_patch(&vec![0u8; plen]);
                std::mem::forget(token);
                if tail > 0 {
                    iov.push_copy(&vec![7u8; tail]);
                }
            }
            let before = iov.total_size();
            let n = iov.consumer().advance_slices(count);
            (n, before - iov.total_size())
        });
        match res {
            Err(_) => println!("ADVANCE PANIC"),
            Ok((n, gone)) => println!("ADVANCE returned={} removed={}", n, gone),
        }
        return;
    }
    if side == "readwrap-enc" || side == "readwrap-dec" {
        readwrap_side(side == "readwrap-enc", &input, &parse_list(&args[3]));
        return;
    }
    let mut cuts = parse_list(&args[3]);
    cuts.push(input.len());
    let methods: Vec<String> = args[4].split(',').map(|s| s.to_string()).collect();
    let res = std::panic::catch_unwind(|| {
        let mut lo = 0usize;
        if side == "anchors-enc" || side == "anchors-dec" {
            // C05: feed the pieces (anchored ones are first read into the codec's own arena), then
            // make the arena move on to fresh chunks and check that the bytes exposed by the iovec
            // did not change (in a debug build a freed chunk is overwritten with 0xFC).
            let fill = (0u8..=255).find(|b| !input.contains(b) && *b != 0xFC).unwrap_or(0x55);
            let big = vec![fill; 1 << 20];
            let one = NonZeroUsize::new(1).unwrap();
            // anchored pieces come from an arena of their own, which goes away before the bytes are read back
            let mut src_arena = owning_iovec::ByteArena::new();
            let mut iov = if side == "anchors-enc" {
                let mut enc = hcobs::Encoder::new();
                for (i, &c) in cuts.iter().enumerate() {
                    let piece = &input[lo..c];
                    match methods.get(i).map(|s| s.as_str()).unwrap_or("copy") {
                        "borrow" => enc.encode(piece),
                        "anchored" => {
                            let a = src_arena.read_n(piece, piece.len(), one).unwrap();
                            enc.encode_anchored(a)
                        }
                        _ => enc.encode_copy(piece),
                    }
                    lo = c;
                }
                enc.finish()
            } else {
                let mut dec = hcobs::Decoder::new();
                for (i, &c) in cuts.iter().enumerate() {
                    let piece = &input[lo..c];
                    let r = match methods.get(i).map(|s| s.as_str()).unwrap_or("copy") {
                        "borrow" => dec.decode(piece),
                        "anchored" => {
                            let a = src_arena.read_n(piece, piece.len(), one).unwrap();
                            dec.decode_anchored(a)
                        }
                        _ => dec.decode_copy(piece),
                    };
                    lo = c;
                    if r.is_err() {
                        break;
                    }
                }
                dec.take_iovec()
            };
            let before = iov.flatten().expect("no pending backref");
            drop(src_arena);
            for _ in 0..4 {
                let _ = iov.arena().read_n(&big[..], big.len(), one).unwrap();
            }
            let after = iov.flatten().expect("no pending backref");
            if before != after {
                return Ok(vec![0xDA, 0x91]); // marker: exposed bytes changed (dangling)
            }
            return Err(());
        }
        if side == "roundtrip" {
            // encode with the given cuts, then decode the stream cut at every position
            let mut enc = hcobs::Encoder::new();
            for (i, &c) in cuts.iter().enumerate() {
                let piece = &input[lo..c];
                match methods.get(i).map(|s| s.as_str()).unwrap_or("copy") {
                    "borrow" => enc.encode(piece),
                    _ => enc.encode_copy(piece),
                }
                lo = c;
            }
            let stream = enc.finish().flatten().expect("no pending backref");
            for dc in 0..=stream.len() {
                let mut dec = hcobs::Decoder::new();
                if dec.decode(&stream[..dc]).is_err() || dec.decode_copy(&stream[dc..]).is_err() {
                    return Err(());
                }
                match dec.finish() {
                    Ok(iov) => {
                        let got = iov.flatten().expect("no pending backref");
                        if got != input {
                            return Ok(got);
                        }
                    }
                    Err(_) => return Err(()),
                }
            }
            Ok(input.clone())
        } else if side == "encode" {
            let mut enc = hcobs::Encoder::new();
            for (i, &c) in cuts.iter().enumerate() {
                let piece = &input[lo..c];
                match methods.get(i).map(|s| s.as_str()).unwrap_or("copy") {
                    "borrow" => enc.encode(piece),
                    "anchored" => {
                        let a = enc.read_n(piece, piece.len(), NonZeroUsize::new(1).unwrap()).unwrap();
                        enc.encode_anchored(a)
                    }
                    _ => enc.encode_copy(piece),
                }
                lo = c;
            }
            Ok(enc.finish().flatten().expect("no pending backref"))
        } else {
            let mut dec = hcobs::Decoder::new();
            for (i, &c) in cuts.iter().enumerate() {
                let piece = &input[lo..c];
                let r = match methods.get(i).map(|s| s.as_str()).unwrap_or("copy") {
                    "borrow" => dec.decode(piece),
                    _ => dec.decode_copy(piece),
                };
                if r.is_err() {
                    return Err(());
                }
                lo = c;
            }
            match dec.finish() {
                Ok(iov) => Ok(iov.flatten().expect("no pending backref")),
                Err(_) => Err(()),
            }
        }
    });
    match res {
        Err(_) => println!("RESULT PANIC"),
        Ok(Ok(bytes)) => println!("RESULT ok {}", bytes.iter().map(|b| b.to_string()).collect::<Vec<_>>().join(",")),
        Ok(Err(())) => println!("RESULT err"),
    }
}
