//! Native replay driver for Engine X counterexamples: runs the real public
//! Encoder / Decoder (chunk limits through hook H1) on a concrete input with
//! the given cuts and input methods and prints what it produced.
use std::num::NonZeroUsize;

fn parse_list(s: &str) -> Vec<usize> {
    s.split(',').filter(|x| !x.is_empty()).map(|x| x.parse().unwrap()).collect()
}

fn main() {
    let args: Vec<String> = std::env::args().collect();
    let side = args[1].clone();
    let input: Vec<u8> = parse_list(&args[2]).into_iter().map(|x| x as u8).collect();
    let mut cuts = parse_list(&args[3]);
    cuts.push(input.len());
    let methods: Vec<String> = args[4].split(',').map(|s| s.to_string()).collect();
    let res = std::panic::catch_unwind(|| {
        let mut lo = 0usize;
        if side == "encode" {
            let mut enc = hcobs::Encoder::new();
            for (i, &c) in cuts.iter().enumerate() {
                let piece = &input[lo..c];
                match methods.get(i).map(|s| s.as_str()).unwrap_or("copy") {
                    "borrow" => enc.encode(piece),
                    "anchored" => {
                        let a = enc.read_n(piece, piece.len(), NonZeroUsize::new(1).unwrap()).unwrap();
                        enc.encode_anchored(a)
                    }
                    _ => enc.encode_copy(piece),
                }
                lo = c;
            }
            Ok(enc.finish().flatten().expect("no pending backref"))
        } else {
            let mut dec = hcobs::Decoder::new();
            for (i, &c) in cuts.iter().enumerate() {
                let piece = &input[lo..c];
                let r = match methods.get(i).map(|s| s.as_str()).unwrap_or("copy") {
                    "borrow" => dec.decode(piece),
                    _ => dec.decode_copy(piece),
                };
                if r.is_err() {
                    return Err(());
                }
                lo = c;
            }
            match dec.finish() {
                Ok(iov) => Ok(iov.flatten().expect("no pending backref")),
                Err(_) => Err(()),
            }
        }
    });
    match res {
        Err(_) => println!("RESULT PANIC"),
        Ok(Ok(bytes)) => println!("RESULT ok {}", bytes.iter().map(|b| b.to_string()).collect::<Vec<_>>().join(",")),
        Ok(Err(())) => println!("RESULT err"),
    }
}
