//! Native replay driver for C14 counterexamples: builds a local time from
//! Unix nanoseconds, a *valid* voucher for the base time, and reports what
//! the real VouchedTime::new does.
fn main() {
    let args: Vec<String> = std::env::args().collect();
    let local_ns: i128 = args[1].parse().expect("local ns");
    let base: u64 = args[2].parse().expect("base ms");
    let params = raffle::VouchingParameters::parse_or_die(
        "VOUCH-773ec2a0e62c20cd-f9e079b78e895091-fc1da7b1b77c57cb-594b9cce3091464a",
    );
    let odt = time::OffsetDateTime::from_unix_timestamp_nanos(local_ns).expect("representable");
    let local = time::PrimitiveDateTime::new(odt.date(), odt.time());
    let voucher = params.vouch(base);
    let res = std::panic::catch_unwind(|| vouched_time::VouchedTime::new(local, base, voucher));
    match res {
        Err(_) => println!("RESULT PANIC"),
        Ok(Ok(vt)) => {
            let back = std::panic::catch_unwind(|| vt.get_local_time());
            match back {
                Ok(t) if t == local => println!("RESULT OK"),
                Ok(_) => println!("RESULT PANIC local time changed"),
                Err(_) => println!("RESULT PANIC in get_local_time"),
            }
        }
        Ok(Err(e)) => println!("RESULT ERR {}", e),
    }
}
