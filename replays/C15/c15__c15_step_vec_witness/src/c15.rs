//! C15: SlidingDeque behaves like a double-ended queue with a contiguous view.
//!
//! Shape: arbitrary valid representation (backing length l <= N, consumed
//! prefix c with c <= l/2 and (c < l or c == 0), arbitrary contents) built
//! through the public API as `From<container>` + `advance(c)`; then ONE
//! symbolic operation with symbolic arguments; then full observation against
//! a reference (a window [start, end) over an array).  `check_rep` (debug
//! assertions are on under Kani) runs at the entry and exit of every public
//! method, so "no panic" includes representation-invariant preservation,
//! which makes the step inductive: it covers every history whose backing
//! length stays <= N.
use sliding_deque::SlidingDeque;
use smallvec::SmallVec;

/// Reference deque: logical contents are `arr[start..end]`.
struct Ref<const M: usize> {
    arr: [u8; M],
    start: usize,
    end: usize,
}

impl<const M: usize> Ref<M> {
    fn len(&self) -> usize {
        self.end - self.start
    }
}

/// Containers are built from a concrete-length copy that is then truncated
/// to the symbolic length: a symbolic-size allocation (`to_vec`) or a chain
/// of conditional pushes (each keeps Vec's realloc path feasible) made CBMC
/// run out of memory, whereas `truncate` only rewrites the length field.
fn mk_vec(init: &[u8], l: usize) -> Vec<u8> {
    let mut v = Vec::with_capacity(init.len() + 1);
    v.extend_from_slice(init);
    v.truncate(l);
    v
}

/// Starts spilled on the heap (`init.len() > 2`), or inline when `init` has
/// at most two elements.
fn mk_small(init: &[u8], l: usize) -> SmallVec<[u8; 2]> {
    let mut v = SmallVec::from_slice(init);
    // SmallVec::truncate is a pop loop; set_len only rewrites the length
    // (u8 has no drop glue) and keeps harness-side code loop-free.
    assert!(l <= v.len());
    unsafe { v.set_len(l) };
    v
}



macro_rules! c15_body {
    ($fname:ident, $container:ty, $n:expr, $mk:path) => {
        fn $fname(witness: bool, only: u8) {
            const N: usize = $n;
            let init: [u8; N] = kani::any();
            let l: usize = kani::any();
            let c: usize = kani::any();
            kani::assume(l <= N);
            kani::assume(c <= l / 2);
            kani::assume(c < l || c == 0);

            let container: $container = $mk(&init, l);
            let mut d: SlidingDeque<$container> = SlidingDeque::from(container);
            let advanced = d.advance(c);
            assert_eq!(advanced, c);

            let mut r = Ref::<{ $n + 1 }> {
                arr: [0u8; $n + 1],
                start: c,
                end: l,
            };
            r.arr[..N].copy_from_slice(&init);
            assert_eq!(d.len(), r.len());

            let op: u8 = if only < 9 { only } else { kani::any() };
            let x: u8 = kani::any();
            let k: usize = kani::any();
            kani::assume(op < 9);
            if only < 9 { kani::assume(op == only); }
            match op {
                0 => {
                    d.push_back(x);
                    r.arr[r.end] = x;
                    r.end += 1;
                }
                1 => {
                    let got = d.pop_front();
                    if r.len() == 0 {
                        assert!(got.is_none());
                    } else {
                        assert_eq!(got, Some(r.arr[r.start]));
                        r.start += 1;
                    }
                }
                2 => {
                    let got = d.pop_back();
                    if r.len() == 0 {
                        assert!(got.is_none());
                    } else {
                        assert_eq!(got, Some(r.arr[r.end - 1]));
                        r.end -= 1;
                    }
                }
                3 => {
                    let got = d.advance(k);
                    let want = if k < r.len() { k } else { r.len() };
                    assert_eq!(got, want);
                    r.start += want;
                }
                4 => {
                    d.clear();
                    r.start = r.end;
                }
                5 => {
                    d.slide();
                }
                6 => match d.front_mut() {
                    Some(slot) => {
                        assert!(r.len() > 0);
                        *slot = x;
                        r.arr[r.start] = x;
                    }
                    None => assert!(r.len() == 0),
                },
                7 => match d.back_mut() {
                    Some(slot) => {
                        assert!(r.len() > 0);
                        *slot = x;
                        r.arr[r.end - 1] = x;
                    }
                    None => assert!(r.len() == 0),
                },
                _ => {
                    let view: &mut [u8] = &mut d;
                    assert_eq!(view.len(), r.len());
                    if k < view.len() {
                        view[k] = x;
                        r.arr[r.start + k] = x;
                    }
                }
            }

            let view: &[u8] = &d;
            assert_eq!(view.len(), r.len());
            let j: usize = kani::any();
            if j < r.len() {
                assert_eq!(view[j], r.arr[r.start + j]);
            }
            assert_eq!(d.len(), r.len());
            assert_eq!(d.is_empty(), r.len() == 0);
            match d.front() {
                Some(v) => {
                    assert!(r.len() > 0);
                    assert_eq!(*v, r.arr[r.start]);
                }
                None => assert!(r.len() == 0),
            }
            match d.back() {
                Some(v) => {
                    assert!(r.len() > 0);
                    assert_eq!(*v, r.arr[r.end - 1]);
                }
                None => assert!(r.len() == 0),
            }

            kani::cover!(op == 2 && c >= 2 && l == 2 * c, "pop_back with exactly half consumed");
            kani::cover!(op == 2 && l - c == 1, "pop_back empties the deque");
            kani::cover!(op == 3 && k > l, "advance past the end");
            kani::cover!(op == 1 && c + 1 > l / 2 && l > c + 1, "pop_front triggers a slide");
            kani::cover!(op == 0 && l == N, "push at the container bound");
            kani::cover!(op == 8 && c > 0 && k < l && k == l - c - 1, "write the last element through DerefMut");
            if witness {
                assert!(false, "reachability witness: harness end reached");
            }
        }
    };
}

c15_body!(step_vec, Vec<u8>, 6, mk_vec);
c15_body!(step_vec8, Vec<u8>, 8, mk_vec);
c15_body!(step_small, SmallVec<[u8; 2]>, 4, mk_small);
c15_body!(step_small_inline, SmallVec<[u8; 2]>, 2, mk_small);
c15_body!(step_small3, SmallVec<[u8; 2]>, 3, mk_small);

#[kani::proof]
#[kani::unwind(3)]
fn c15_step_vec() {
    step_vec(false, 255)
}

#[kani::proof]
#[kani::unwind(3)]
fn c15_step_vec_witness() {
    step_vec(true, 255)
}

/// Test generated for harness `c15::c15_step_vec_witness`
///
/// Check for `cover`: "pop_back empties the deque"

#[test]
fn kani_concrete_playback_c15_step_vec_witness_9302528108563624772() {
    let concrete_vals: Vec<Vec<u8>> = vec![
        // 33
        vec![33],
        // 220
        vec![220],
        // 224
        vec![224],
        // 221
        vec![221],
        // 123
        vec![123],
        // 60
        vec![60],
        // 1ul
        vec![1, 0, 0, 0, 0, 0, 0, 0],
        // 0ul
        vec![0, 0, 0, 0, 0, 0, 0, 0],
        // 2
        vec![2],
        // 132
        vec![132],
        // 0ul
        vec![0, 0, 0, 0, 0, 0, 0, 0],
        // 3ul
        vec![3, 0, 0, 0, 0, 0, 0, 0],
    ];
    kani::concrete_playback_run(concrete_vals, c15_step_vec_witness);
}

/// Test generated for harness `c15::c15_step_vec_witness`
///
/// Check for `cover`: "advance past the end"

#[test]
fn kani_concrete_playback_c15_step_vec_witness_14371354079897834345() {
    let concrete_vals: Vec<Vec<u8>> = vec![
        // 34
        vec![34],
        // 58
        vec![58],
        // 202
        vec![202],
        // 32
        vec![32],
        // 231
        vec![231],
        // 34
        vec![34],
        // 0ul
        vec![0, 0, 0, 0, 0, 0, 0, 0],
        // 0ul
        vec![0, 0, 0, 0, 0, 0, 0, 0],
        // 3
        vec![3],
        // 35
        vec![35],
        // 3ul
        vec![3, 0, 0, 0, 0, 0, 0, 0],
        // 562949953421313ul
        vec![1, 0, 0, 0, 0, 0, 2, 0],
    ];
    kani::concrete_playback_run(concrete_vals, c15_step_vec_witness);
}

/// Test generated for harness `c15::c15_step_vec_witness`
///
/// Check for `cover`: "pop_front triggers a slide"

#[test]
fn kani_concrete_playback_c15_step_vec_witness_8602430612030864100() {
    let concrete_vals: Vec<Vec<u8>> = vec![
        // 5
        vec![5],
        // 200
        vec![200],
        // 5
        vec![5],
        // 1
        vec![1],
        // 5
        vec![5],
        // 3
        vec![3],
        // 3ul
        vec![3, 0, 0, 0, 0, 0, 0, 0],
        // 1ul
        vec![1, 0, 0, 0, 0, 0, 0, 0],
        // 1
        vec![1],
        // 200
        vec![200],
        // 18446744073709551613ul
        vec![253, 255, 255, 255, 255, 255, 255, 255],
        // 0ul
        vec![0, 0, 0, 0, 0, 0, 0, 0],
    ];
    kani::concrete_playback_run(concrete_vals, c15_step_vec_witness);
}

/// Test generated for harness `c15::c15_step_vec_witness`
///
/// Check for `cover`: "push at the container bound"

#[test]
fn kani_concrete_playback_c15_step_vec_witness_9624518355941010881() {
    let concrete_vals: Vec<Vec<u8>> = vec![
        // 217
        vec![217],
        // 248
        vec![248],
        // 219
        vec![219],
        // 192
        vec![192],
        // 219
        vec![219],
        // 219
        vec![219],
        // 6ul
        vec![6, 0, 0, 0, 0, 0, 0, 0],
        // 1ul
        vec![1, 0, 0, 0, 0, 0, 0, 0],
        // 0
        vec![0],
        // 193
        vec![193],
        // 10ul
        vec![10, 0, 0, 0, 0, 0, 0, 0],
        // 562949953421313ul
        vec![1, 0, 0, 0, 0, 0, 2, 0],
    ];
    kani::concrete_playback_run(concrete_vals, c15_step_vec_witness);
}

/// Test generated for harness `c15::c15_step_vec_witness`
///
/// Check for `cover`: "write the last element through DerefMut"

#[test]
fn kani_concrete_playback_c15_step_vec_witness_7244876160419599334() {
    let concrete_vals: Vec<Vec<u8>> = vec![
        // 143
        vec![143],
        // 10
        vec![10],
        // 11
        vec![11],
        // 11
        vec![11],
        // 171
        vec![171],
        // 170
        vec![170],
        // 6ul
        vec![6, 0, 0, 0, 0, 0, 0, 0],
        // 2ul
        vec![2, 0, 0, 0, 0, 0, 0, 0],
        // 8
        vec![8],
        // 139
        vec![139],
        // 3ul
        vec![3, 0, 0, 0, 0, 0, 0, 0],
        // 3ul
        vec![3, 0, 0, 0, 0, 0, 0, 0],
    ];
    kani::concrete_playback_run(concrete_vals, c15_step_vec_witness);
}

/// Test generated for harness `c15::c15_step_vec_witness`
///
/// Check for `assertion`: ""reachability witness: harness end reached""

#[test]
fn kani_concrete_playback_c15_step_vec_witness_1258199902945150811() {
    let concrete_vals: Vec<Vec<u8>> = vec![
        // 63
        vec![63],
        // 62
        vec![62],
        // 63
        vec![63],
        // 63
        vec![63],
        // 63
        vec![63],
        // 63
        vec![63],
        // 1ul
        vec![1, 0, 0, 0, 0, 0, 0, 0],
        // 0ul
        vec![0, 0, 0, 0, 0, 0, 0, 0],
        // 4
        vec![4],
        // 63
        vec![63],
        // 4611686018427387905ul
        vec![1, 0, 0, 0, 0, 0, 0, 64],
        // 0ul
        vec![0, 0, 0, 0, 0, 0, 0, 0],
    ];
    kani::concrete_playback_run(concrete_vals, c15_step_vec_witness);
}

/// Test generated for harness `c15::c15_step_vec_witness`
///
/// Check for `assertion`: "assertion failed: self.consumed_prefix <= self.container.slice().len() / 2"

#[test]
fn kani_concrete_playback_c15_step_vec_witness_18324391707682291302() {
    let concrete_vals: Vec<Vec<u8>> = vec![
        // 255
        vec![255],
        // 255
        vec![255],
        // 255
        vec![255],
        // 255
        vec![255],
        // 255
        vec![255],
        // 255
        vec![255],
        // 4ul
        vec![4, 0, 0, 0, 0, 0, 0, 0],
        // 2ul
        vec![2, 0, 0, 0, 0, 0, 0, 0],
        // 2
        vec![2],
        // 255
        vec![255],
        // 1ul
        vec![1, 0, 0, 0, 0, 0, 0, 0],
    ];
    kani::concrete_playback_run(concrete_vals, c15_step_vec_witness);
}

#[kani::proof]
#[kani::unwind(3)]
fn c15_step_vec8() {
    step_vec8(false, 255)
}

#[kani::proof]
#[kani::unwind(6)]
fn c15_step_small3() {
    step_small3(false, 255)
}

#[kani::proof]
#[kani::unwind(6)]
fn c15_step_small() {
    step_small(false, 255)
}

#[kani::proof]
#[kani::unwind(3)]
fn c15_step_small_witness() {
    step_small(true, 255)
}


#[kani::proof]
#[kani::unwind(3)]
fn c15_step_small_inline() {
    step_small_inline(false, 255)
}
