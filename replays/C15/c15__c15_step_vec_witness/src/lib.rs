//! Kani harnesses for sliding_deque (properties C15 and C16).
//!
//! C15: one inductive step of `SlidingDeque` from an arbitrary valid
//! representation against a window-over-array reference deque.
//! C16: one step of `SortedDeque` from an arbitrary valid tombstone layout
//! against a bitmap reference map.
#![allow(clippy::all)]

#[cfg(kani)]
mod c15;
#[cfg(kani)]
mod c16;
