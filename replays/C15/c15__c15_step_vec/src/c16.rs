//! C16: SortedDeque behaves like an ordered map with append-only insertion.
//!
//! Shape: an arbitrary valid physical layout (<= L items, strictly increasing
//! symbolic keys, symbolic tombstones with live ends) is built through the
//! public constructor `SortedDeque::new(container, ())`; up to two symbolic
//! `pop_first` calls create consumed prefixes in the underlying SlidingDeque;
//! then ONE symbolic operation, then full observation (iter, first, last,
//! is_empty, find of a symbolic key) against a reference model.
//!
//! Reference model: items are (key, val) with val == 0 meaning "erased";
//! physical window [start, end) over an array; the ends of the window are
//! always live (the crate's documented cleanup rule).
use sliding_deque::SortedDeque;
use sliding_deque::traits::SortedDequeItem;

const L: usize = 5;

#[derive(Clone, Copy)]
struct Model {
    key: [u8; L + 1],
    val: [u8; L + 1],
    start: usize,
    end: usize,
}

impl Model {
    fn is_empty(&self) -> bool {
        self.start == self.end
    }

    /// Drop exposed tombstones at both ends (bounded, unrolled by the unwinder).
    fn cleanup(&mut self) {
        let mut i = 0;
        while i < L + 1 {
            if self.start < self.end && self.val[self.start] == 0 {
                self.start += 1;
            }
            if self.start < self.end && self.val[self.end - 1] == 0 {
                self.end -= 1;
            }
            i += 1;
        }
    }

    /// Index of the live item matching the query, if any.
    fn lookup(&self, whole: bool, qk: u8, qv: u8) -> Option<usize> {
        let mut found = None;
        let mut i = 0;
        while i < L + 1 {
            if i >= self.start && i < self.end && self.val[i] != 0 && self.key[i] == qk && (!whole || self.val[i] == qv) {
                found = Some(i);
            }
            i += 1;
        }
        found
    }

    /// The n-th live item in ascending order.
    fn nth_live(&self, n: usize) -> Option<usize> {
        let mut seen = 0;
        let mut found = None;
        let mut i = 0;
        while i < L + 1 {
            if i >= self.start && i < self.end && self.val[i] != 0 {
                if seen == n && found.is_none() {
                    found = Some(i);
                }
                seen += 1;
            }
            i += 1;
        }
        found
    }
}

/// Whole-item convention: the entire item is the ordering key.
#[derive(Clone, Copy, Debug, PartialEq, Eq, PartialOrd, Ord)]
pub struct WItem {
    key: u8,
    val: u8,
}

impl SortedDequeItem for WItem {
    fn mark_erased(&mut self) {
        self.val = 0;
    }

    fn is_erased(&self) -> bool {
        self.val == 0
    }
}

type PItem = (u8, Option<u8>);

fn pitem(k: u8, v: u8) -> PItem {
    (k, if v == 0 { None } else { Some(v) })
}

fn witem(k: u8, v: u8) -> WItem {
    WItem { key: k, val: v }
}

fn pkey(k: u8, _v: u8) -> u8 {
    k
}

fn wkey(k: u8, v: u8) -> WItem {
    WItem { key: k, val: v }
}

/// Arbitrary valid layout of `l <= L` physical items.
fn any_model(maxl: usize) -> Model {
    let key: [u8; L + 1] = kani::any();
    let val: [u8; L + 1] = kani::any();
    let l: usize = kani::any();
    kani::assume(l <= L && l <= maxl);
    // strictly increasing keys over the physical items
    kani::assume(key[0] < key[1] && key[1] < key[2] && key[2] < key[3] && key[3] < key[4]);
    // first and last physical items are live
    if l > 0 {
        kani::assume(val[0] != 0);
        kani::assume(val[l - 1] != 0);
    }
    Model { key, val, start: 0, end: l }
}

macro_rules! c16_body {
    ($fname:ident, $panic_fname:ident, $item:ty, $mk:path, $mkkey:path, $whole:expr) => {
        fn $fname(witness: bool, fix_pops: u8, fix_op: u8, maxl: usize) {
            let mut m = any_model(maxl);
            let l = m.end;
            // concrete-length container, then truncate (no symbolic-size allocation)
            let mut v: Vec<$item> = Vec::with_capacity(L + 1);
            v.push($mk(m.key[0], m.val[0]));
            v.push($mk(m.key[1], m.val[1]));
            v.push($mk(m.key[2], m.val[2]));
            v.push($mk(m.key[3], m.val[3]));
            v.push($mk(m.key[4], m.val[4]));
            v.truncate(l);
            let mut d: SortedDeque<Vec<$item>> = SortedDeque::new(v, ());

            // Up to two pops from the front: creates a consumed prefix.
            let pops: u8 = if fix_pops <= 2 { fix_pops } else { kani::any() };
            kani::assume(pops <= 2);
            if pops >= 1 {
                let got = d.pop_first();
                if m.is_empty() {
                    assert!(got.is_none());
                } else {
                    assert!(got == Some($mk(m.key[m.start], m.val[m.start])));
                    m.start += 1;
                    m.cleanup();
                }
            }
            if pops >= 2 {
                let got = d.pop_first();
                if m.is_empty() {
                    assert!(got.is_none());
                } else {
                    assert!(got == Some($mk(m.key[m.start], m.val[m.start])));
                    m.start += 1;
                    m.cleanup();
                }
            }

            let op: u8 = if fix_op < 7 { fix_op } else { kani::any() };
            let qk: u8 = kani::any();
            let qv: u8 = kani::any();
            kani::assume(op < 7);
            let pre = m;
            match op {
                0 => {
                    // push: erased item (no-op) or strictly greater live item
                    let fits = m.is_empty() || (m.key[m.end - 1], if $whole { m.val[m.end - 1] } else { 0 }) < (qk, if $whole { qv } else { 0 }) ;
                    kani::assume(qv == 0 || fits);
                    // keep the model's key array strictly increasing over the window
                    d.push_back_or_panic($mk(qk, qv));
                    if qv != 0 {
                        if m.is_empty() {
                            m.start = 0;
                            m.end = 0;
                        }
                        m.key[m.end] = qk;
                        m.val[m.end] = qv;
                        m.end += 1;
                    }
                }
                1 => {
                    let got = d.find(&$mkkey(qk, qv)).copied();
                    match m.lookup($whole, qk, qv) {
                        Some(i) => assert!(got == Some($mk(m.key[i], m.val[i]))),
                        None => assert!(got.is_none()),
                    }
                }
                2 => {
                    let got = d.remove(&$mkkey(qk, qv));
                    match m.lookup($whole, qk, qv) {
                        Some(i) => {
                            assert!(got == Some($mk(m.key[i], m.val[i])));
                            m.val[i] = 0;
                            m.cleanup();
                        }
                        None => assert!(got.is_none()),
                    }
                }
                3 => {
                    let got = d.pop_first();
                    if m.is_empty() {
                        assert!(got.is_none());
                    } else {
                        assert!(got == Some($mk(m.key[m.start], m.val[m.start])));
                        m.start += 1;
                        m.cleanup();
                    }
                }
                4 => {
                    let got = d.pop_last();
                    if m.is_empty() {
                        assert!(got.is_none());
                    } else {
                        assert!(got == Some($mk(m.key[m.end - 1], m.val[m.end - 1])));
                        m.end -= 1;
                        m.cleanup();
                    }
                }
                5 => {
                    d.clear();
                    m.start = m.end;
                }
                _ => {
                    // removed keys are never found again: remove then find the same key
                    let got = d.remove(&$mkkey(qk, qv));
                    if let Some(i) = m.lookup($whole, qk, qv) {
                        assert!(got.is_some());
                        m.val[i] = 0;
                        m.cleanup();
                    } else {
                        assert!(got.is_none());
                    }
                    assert!(d.find(&$mkkey(qk, qv)).is_none());
                    // an erased whole item is not found under its erased form either
                    assert!(d.remove(&$mkkey(qk, qv)).is_none());
                }
            }

            // Observation against the model.
            assert_eq!(d.is_empty(), m.is_empty());
            match d.first() {
                Some(it) => {
                    assert!(!m.is_empty());
                    assert!(*it == $mk(m.key[m.start], m.val[m.start]));
                    assert!(m.val[m.start] != 0);
                }
                None => assert!(m.is_empty()),
            }
            match d.last() {
                Some(it) => {
                    assert!(!m.is_empty());
                    assert!(*it == $mk(m.key[m.end - 1], m.val[m.end - 1]));
                    assert!(m.val[m.end - 1] != 0);
                }
                None => assert!(m.is_empty()),
            }
            {
                // iteration: ascending, exactly the live items (single pass
                // over the physical positions of the model)
                let mut it = d.iter();
                let mut i = 0;
                while i < L + 1 {
                    if i >= m.start && i < m.end && m.val[i] != 0 {
                        let got = it.next().copied();
                        assert!(got == Some($mk(m.key[i], m.val[i])));
                    }
                    i += 1;
                }
                assert!(it.next().is_none());
            }
            {
                // lookup of an arbitrary key (between deleted neighbours included)
                let pk: u8 = kani::any();
                let pv: u8 = kani::any();
                let got = d.find(&$mkkey(pk, pv)).copied();
                match m.lookup($whole, pk, pv) {
                    Some(i) => assert!(got == Some($mk(m.key[i], m.val[i]))),
                    None => assert!(got.is_none()),
                }
            }

            kani::cover!(op == 4 && pops == 2 && l >= 4, "pop_last after two pop_first (F2 shape)");
            kani::cover!(op == 2 && pre.end - pre.start >= 3 && m.end + 2 <= pre.end, "remove last exposes tombstones at the back");
            kani::cover!(op == 2 && pre.end - pre.start >= 3 && m.start >= pre.start + 2, "remove first exposes tombstones at the front");
            kani::cover!(op == 2 && m.start == pre.start && m.end == pre.end && pre.end - pre.start >= 3 && m.val[pre.start + 1] == 0 && pre.val[pre.start + 1] != 0, "middle removal marks a tombstone");
            kani::cover!(op == 0 && qv != 0 && !pre.is_empty(), "push a greater live item");
            kani::cover!(op == 0 && qv == 0, "push an erased item is a no-op");
            kani::cover!(op == 1 && m.lookup($whole, qk, qv).is_none() && !m.is_empty() && qk > m.key[m.start] && qk < m.key[m.end - 1], "find a missing key inside the range");
            if witness {
                assert!(false, "reachability witness: harness end reached");
            }
        }

        /// Pushing a live item that is not strictly greater than the last item
        /// must panic for EVERY such input: the only failing check may be the
        /// crate's own assertion, and the point after the call is unreachable.
        fn $panic_fname() {
            let m = any_model(L);
            let l = m.end;
            kani::assume(l >= 1);
            let mut v: Vec<$item> = Vec::with_capacity(L + 1);
            v.push($mk(m.key[0], m.val[0]));
            v.push($mk(m.key[1], m.val[1]));
            v.push($mk(m.key[2], m.val[2]));
            v.push($mk(m.key[3], m.val[3]));
            v.push($mk(m.key[4], m.val[4]));
            v.truncate(l);
            let mut d: SortedDeque<Vec<$item>> = SortedDeque::new(v, ());
            let qk: u8 = kani::any();
            let qv: u8 = kani::any();
            kani::assume(qv != 0);
            let last = (m.key[l - 1], if $whole { m.val[l - 1] } else { 0 });
            kani::assume((qk, if $whole { qv } else { 0 }) <= last);
            d.push_back_or_panic($mk(qk, qv));
            kani::cover!(true, "call returned normally");
        }
    };
}

c16_body!(step_pairs, panic_pairs, PItem, pitem, pkey, false);
c16_body!(step_whole, panic_whole, WItem, witem, wkey, true);

macro_rules! proofs {
    ($($name:ident = $f:ident($w:expr, $p:expr, $o:expr, $l:expr);)*) => {
        $(
            #[kani::proof]
            #[kani::unwind(8)]
            fn $name() {
                $f($w, $p, $o, $l)
            }
        )*
    };
}

proofs! {
    c16_pairs_op0 = step_pairs(false, 0, 0, 5);
    c16_pairs_op1 = step_pairs(false, 0, 1, 5);
    c16_pairs_op2 = step_pairs(false, 0, 2, 5);
    c16_pairs_op3 = step_pairs(false, 0, 3, 5);
    c16_pairs_op4 = step_pairs(false, 0, 4, 5);
    c16_pairs_op5 = step_pairs(false, 0, 5, 5);
    c16_pairs_op6 = step_pairs(false, 0, 6, 5);
    c16_pairs_op2_witness = step_pairs(true, 0, 2, 5);
    c16_pairs_p1_op0 = step_pairs(false, 1, 0, 5);
    c16_pairs_p1_op1 = step_pairs(false, 1, 1, 5);
    c16_pairs_p1_op2 = step_pairs(false, 1, 2, 5);
    c16_pairs_p1_op3 = step_pairs(false, 1, 3, 5);
    c16_pairs_p1_op4 = step_pairs(false, 1, 4, 5);
    c16_pairs_p1_op5 = step_pairs(false, 1, 5, 5);
    c16_pairs_p1_op6 = step_pairs(false, 1, 6, 5);
    c16_pairs_p2_op0 = step_pairs(false, 2, 0, 5);
    c16_pairs_p2_op1 = step_pairs(false, 2, 1, 5);
    c16_pairs_p2_op2 = step_pairs(false, 2, 2, 5);
    c16_pairs_p2_op3 = step_pairs(false, 2, 3, 5);
    c16_pairs_p2_op4 = step_pairs(false, 2, 4, 5);
    c16_pairs_p2_op5 = step_pairs(false, 2, 5, 5);
    c16_pairs_p2_op6 = step_pairs(false, 2, 6, 5);
    c16_whole_op0 = step_whole(false, 0, 0, 5);
    c16_whole_op1 = step_whole(false, 0, 1, 5);
    c16_whole_op2 = step_whole(false, 0, 2, 5);
    c16_whole_op3 = step_whole(false, 0, 3, 5);
    c16_whole_op4 = step_whole(false, 0, 4, 5);
    c16_whole_op5 = step_whole(false, 0, 5, 5);
    c16_whole_op6 = step_whole(false, 0, 6, 5);
    c16_whole_op2_witness = step_whole(true, 0, 2, 5);
    c16_whole_p1_op0 = step_whole(false, 1, 0, 5);
    c16_whole_p1_op1 = step_whole(false, 1, 1, 5);
    c16_whole_p1_op2 = step_whole(false, 1, 2, 5);
    c16_whole_p1_op3 = step_whole(false, 1, 3, 5);
    c16_whole_p1_op4 = step_whole(false, 1, 4, 5);
    c16_whole_p1_op5 = step_whole(false, 1, 5, 5);
    c16_whole_p1_op6 = step_whole(false, 1, 6, 5);
    c16_whole_p2_op0 = step_whole(false, 2, 0, 5);
    c16_whole_p2_op1 = step_whole(false, 2, 1, 5);
    c16_whole_p2_op2 = step_whole(false, 2, 2, 5);
    c16_whole_p2_op3 = step_whole(false, 2, 3, 5);
    c16_whole_p2_op4 = step_whole(false, 2, 4, 5);
    c16_whole_p2_op5 = step_whole(false, 2, 5, 5);
    c16_whole_p2_op6 = step_whole(false, 2, 6, 5);
}

#[kani::proof]
#[kani::unwind(8)]
fn c16_push_not_greater_panics_pairs() {
    panic_pairs()
}

#[kani::proof]
#[kani::unwind(8)]
fn c16_push_not_greater_panics_whole() {
    panic_whole()
}
