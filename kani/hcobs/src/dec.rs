//! Decoder side (C07): for EVERY byte string within the bound and every
//! segmentation into decode calls, `Decoder` rejects exactly when the
//! reference decoder does and otherwise returns exactly the reference plain
//! text; it never panics.  After an error the decoder is not used further.
use crate::probe::*;
use crate::refcodec::*;
use hcobs::Decoder;
use std::num::NonZeroUsize;

fn feed<'a>(dec: &mut Decoder<'a>, piece: &'a [u8], fixed: u8) -> bool {
    let m: u8 = if fixed < 3 { fixed } else { kani::any() };
    kani::assume(m < 3);
    match m {
        0 => dec.decode(piece).is_ok(),
        1 => dec.decode_copy(piece).is_ok(),
        _ => {
            if piece.is_empty() {
                return dec.decode_copy(piece).is_ok();
            }
            match dec.read_n(piece, piece.len(), NonZeroUsize::new(1).unwrap()) {
                Ok(anchored) => dec.decode_anchored(anchored).is_ok(),
                Err(_) => {
                    assert!(false, "slice readers do not fail");
                    false
                }
            }
        }
    }
}

fn dec_vs_ref<const L: usize>(c1: usize, method_fixed: u8, witness: bool) {
    let (a, b) = hcobs::verif_hooks::limits();
    let bytes: [u8; L] = kani::any();
    let exp = ref_decode::<L>(&bytes, L, a, b);
    let mut dec = Decoder::new();
    let mut ok = feed(&mut dec, &bytes[..c1], method_fixed);
    if ok {
        // decoder output is always immediately consumable (C09: zero lag)
        let c = dec.consumer();
        assert!(!c.has_pending_backrefs());
        assert_eq!(total(c.stable_prefix()), c.total_size());
        ok = feed(&mut dec, &bytes[c1..], method_fixed);
    }
    if !ok {
        assert!(exp.is_none());
        std::mem::forget(dec);
        return;
    }
    match dec.finish() {
        Err(_) => assert!(exp.is_none()),
        Ok(out) => {
            assert!(exp.is_some());
            let exp = exp.unwrap();
            let slices = match out.iovs() {
                Ok(slices) => slices,
                Err(_) => {
                    assert!(false, "decoders never register placeholders");
                    return;
                }
            };
            assert_eq!(total(slices), exp.len);
            assert!(no_empty_slice(slices));
            let j: usize = kani::any();
            if j < exp.len {
                assert!(byte_at(slices, j) == Some(exp.b[j]));
            }
            kani::cover!(exp.len > L - 2, "decoded text longer than the payload bytes (implicit stuff sequences)");
            kani::cover!(exp.len == 0, "empty message");
            std::mem::forget(out);
        }
    }
    if witness {
        assert!(false, "reachability witness: harness end reached");
    }
}

macro_rules! dec_proofs {
    ($($name:ident = ($l:expr, $c1:expr, $m:expr, $w:expr);)*) => {
        $(
            #[kani::proof]
            #[kani::unwind(8)]
            fn $name() {
                dec_vs_ref::<$l>($c1, $m, $w)
            }
        )*
    };
}

dec_proofs! {
    dec_l1_copy = (1, 1, 1, false);
    dec_l2_c1_copy = (2, 1, 1, false);
    dec_l3_c1_copy = (3, 1, 1, false);
    dec_l3_c2_borrow = (3, 2, 0, false);
    dec_l4_c1_copy = (4, 1, 1, false);
    dec_l4_c2_copy = (4, 2, 1, false);
    dec_l4_c2_copy_witness = (4, 2, 1, true);
    dec_l4_c3_copy = (4, 3, 1, false);
    dec_l4_c2_borrow = (4, 2, 0, false);
    dec_l4_c2_anchored = (4, 2, 2, false);
    dec_l5_c2_copy = (5, 2, 1, false);
    dec_l5_c3_borrow = (5, 3, 0, false);
    dec_l6_c3_copy = (6, 3, 1, false);
    dec_l6_c1_copy = (6, 1, 1, false);
    dec_l6_c5_copy = (6, 5, 1, false);
}
