//! Properties of the reference codec itself (pure harness-side code, cheap):
//! together with "Encoder == ref_encode" (enc.rs) and "Decoder == ref_decode"
//! (dec.rs) they give the round trip (C01), stuff-freedom and the length
//! bound (C02) by composition.
use crate::refcodec::*;

fn limits_any() -> (usize, usize) {
    let a: usize = kani::any();
    let b: usize = kani::any();
    kani::assume(a >= 1 && a <= 3 && b >= 1 && b <= 5);
    (a, b)
}

/// ref_decode(ref_encode(x)) == x for every x of length <= 6, all tiny limits.
#[kani::proof]
#[kani::unwind(26)]
fn lemma_ref_roundtrip() {
    let (a, b) = limits_any();
    let data: [u8; 6] = kani::any();
    let len: usize = kani::any();
    kani::assume(len <= 6);
    let enc = ref_encode::<6>(&data, len, a, b);
    let dec = ref_decode::<CAP>(&enc.b, enc.len, a, b);
    assert!(dec.is_some());
    let dec = dec.unwrap();
    assert_eq!(dec.len, len);
    let j: usize = kani::any();
    if j < len {
        assert_eq!(dec.b[j], data[j]);
    }
    kani::cover!(len == 6 && enc.len > 9, "several chunks");
}

/// The canonical encoding never contains FE FD and obeys the size bound
/// len + 1 + 2 * (number of size-closed or stuff-closed chunks).
#[kani::proof]
#[kani::unwind(26)]
fn lemma_ref_stuff_free_and_bounded() {
    let (a, b) = limits_any();
    let data: [u8; 6] = kani::any();
    let len: usize = kani::any();
    kani::assume(len <= 6);
    let enc = ref_encode::<6>(&data, len, a, b);
    let j: usize = kani::any();
    if j < CAP - 1 && j + 1 < enc.len {
        assert!(!(enc.b[j] == 0xFE && enc.b[j + 1] == 0xFD));
    }
    // every header digit is below the radix and the output is at most
    // 1 + len + 2 * ceil(len / min(a, b)) + 2 bytes
    assert!(enc.len <= 1 + len + 2 * (len + 1));
    assert!(enc.len >= 1);
    kani::cover!(len >= 2 && data[0] == 0xFE && data[1] == 0xFD, "input starts with a stuff sequence");
}
