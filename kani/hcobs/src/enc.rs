//! Encoder side (C07 canonical encoder, C02 split independence / stuff-free /
//! bounded, C09 drained prefix and lag, part of C01).
//!
//! `Encoder` output for ANY segmentation, input method and drain schedule
//! within the bound equals `ref_encode(concatenation)` byte for byte.  The
//! piece boundaries are concrete per job (symbolic cut points did not get
//! through symbolic execution); bytes, input methods and drains are symbolic.
//! Built with hook H1 (tiny chunk limits) and H2 (small arena chunks / copy
//! thresholds).
use crate::probe::*;
use crate::refcodec::*;
use hcobs::Encoder;
use std::num::NonZeroUsize;

/// bound on the encoded length within these harnesses (L <= 6, limits >= (2, 3))
const DR: usize = 14;

fn limits() -> (usize, usize) {
    hcobs::verif_hooks::limits()
}

/// Feeds one piece through a symbolic input method.
fn feed<'a>(enc: &mut Encoder<'a>, piece: &'a [u8], fixed: u8) -> u8 {
    let m: u8 = if fixed < 3 { fixed } else { kani::any() };
    kani::assume(m < 3);
    match m {
        0 => enc.encode(piece),
        1 => enc.encode_copy(piece),
        _ => {
            if piece.is_empty() {
                enc.encode_copy(piece);
            } else {
                match enc.read_n(piece, piece.len(), NonZeroUsize::new(1).unwrap()) {
                    Ok(anchored) => {
                        assert!(anchored.slice().len() == piece.len());
                        enc.encode_anchored(anchored);
                    }
                    Err(_) => assert!(false, "slice readers do not fail"),
                }
            }
        }
    }
    m
}

/// Drains a symbolic amount of the stable prefix into `drained`, checking the
/// C09 clauses on the way.  `exp` is the reference encoding of the complete
/// input, `lag_bound` the constant bound on not-yet-consumable output.
fn drain(enc: &mut Encoder<'_>, drained: &mut Buf, exp: &Buf, lag_bound: usize, how_fixed: u8) {
    let how: u8 = if how_fixed < 3 { how_fixed } else { kani::any() };
    kani::assume(how < 3);
    let mut c = enc.consumer();
    let stable = total(c.stable_prefix());
    let buffered = c.total_size();
    // prefix: what is consumable now continues the final output after what was drained
    assert!(drained.len + stable <= exp.len);
    let j: usize = kani::any();
    if j < stable {
        assert!(byte_at(c.stable_prefix(), j) == Some(exp.b[drained.len + j]));
    }
    assert!(no_empty_slice(c.stable_prefix()));
    // lag: produced but not yet consumable is bounded by a constant
    assert!(buffered >= stable);
    assert!(buffered - stable <= lag_bound);
    match how {
        0 => {}
        1 => {
            // consume whole slices: k is unconstrained
            let k: usize = kani::any();
            let nsl = c.stable_prefix().len();
            let want = if k < nsl { k } else { nsl };
            let mut bytes = 0usize;
            let mut i = 0;
            while i < MAXS {
                if i < want {
                    bytes += c.stable_prefix()[i].len();
                }
                i += 1;
            }
            let mut i = 0;
            while i < DR {
                if i < bytes {
                    let v = byte_at(c.stable_prefix(), i).unwrap();
                    drained.push(v);
                }
                i += 1;
            }
            let got = c.consume(k);
            assert_eq!(got, want);
            assert_eq!(c.total_size(), buffered - bytes);
        }
        _ => {
            // consume by bytes: n is unconstrained
            let n: usize = kani::any();
            let want = if n < stable { n } else { stable };
            let mut i = 0;
            while i < DR {
                if i < want {
                    let v = byte_at(c.stable_prefix(), i).unwrap();
                    drained.push(v);
                }
                i += 1;
            }
            let got = c.advance_slices(n);
            assert_eq!(got, want);
            assert_eq!(c.total_size(), buffered - want);
        }
    }
}

/// `cuts`: concrete piece boundaries 0 <= c1 <= c2 <= L (pieces [0,c1) [c1,c2) [c2,L)).
fn enc_vs_ref<const L: usize>(c1: usize, c2: usize, drains: u8, method_fixed: u8, arena_chunk: usize, witness: bool) {
    let (a, b) = limits();
    let data: [u8; L] = kani::any();
    let exp = ref_encode::<L>(&data, L, a, b);
    assert!(exp.len <= DR);
    let lag_bound = arena_chunk + b + 2;
    let mut drained = Buf::new();
    let mut enc = Encoder::new();
    let m1 = feed(&mut enc, &data[..c1], method_fixed);
    if drains != 0 {
        drain(&mut enc, &mut drained, &exp, lag_bound, if drains == 1 { 3 } else { drains - 2 });
    }
    let m2 = feed(&mut enc, &data[c1..c2], method_fixed);
    if drains != 0 {
        drain(&mut enc, &mut drained, &exp, lag_bound, if drains == 1 { 3 } else { drains - 2 });
    }
    if c2 < L {
        feed(&mut enc, &data[c2..], method_fixed);
        if drains != 0 {
            drain(&mut enc, &mut drained, &exp, lag_bound, if drains == 1 { 3 } else { drains - 2 });
        }
    }
    let out = enc.finish();
    let slices = match out.iovs() {
        Ok(slices) => slices,
        Err(_) => {
            assert!(false, "finish() leaves no placeholder pending");
            return;
        }
    };
    // complete: drained ++ finish() is exactly the canonical encoding
    let rest = total(slices);
    assert_eq!(drained.len + rest, exp.len);
    assert_eq!(out.total_size(), rest);
    assert!(no_empty_slice(slices));
    let j: usize = kani::any();
    if j < exp.len {
        let got = if j < drained.len { Some(drained.b[j]) } else { byte_at(slices, j - drained.len) };
        assert!(got == Some(exp.b[j]));
        // stuff-free, including across slice boundaries and across drained / final
        if j + 1 < exp.len {
            let nxt = if j + 1 < drained.len { Some(drained.b[j + 1]) } else { byte_at(slices, j + 1 - drained.len) };
            assert!(!(got == Some(0xFE) && nxt == Some(0xFD)));
        }
    }
    // C02 length bound in terms of the limits in force: len + 1 + 2 * (chunks closed)
    assert!(exp.len <= L + 1 + 2 * (L + 1));

    kani::cover!(m1 == 0 && m2 == 2, "borrowed piece then anchored piece");
    kani::cover!(m1 == 1 && m2 == 0, "copied piece then borrowed piece");
    if c1 >= 1 && c1 < L {
        kani::cover!(data[c1 - 1] == 0xFE && data[c1] == 0xFD, "stuff sequence split across two pieces (held-back FE)");
        kani::cover!(data[c1 - 1] == 0xFE && data[c1] != 0xFD, "held-back FE released");
    }
    kani::cover!(exp.len >= L + 5, "at least three chunks");
    if drains != 0 {
        kani::cover!(drained.len > 0 && drained.len < exp.len, "partial drain");
    }
    std::mem::forget(out);
    if witness {
        assert!(false, "reachability witness: harness end reached");
    }
}

macro_rules! enc_proofs {
    ($($name:ident = ($l:expr, $c1:expr, $c2:expr, $dr:expr, $m:expr, $chunk:expr, $w:expr);)*) => {
        $(
            #[kani::proof]
            #[kani::unwind(16)]
            fn $name() {
                enc_vs_ref::<$l>($c1, $c2, $dr, $m, $chunk, $w)
            }
        )*
    };
}

// name = (L, c1, c2, drains(0 none / 1 symbolic / 3 slices / 4 bytes), method(0 borrow, 1 copy, 2 anchored, 3 symbolic), arena chunk, witness)
enc_proofs! {
    enc_l3_c1_copy = (3, 1, 3, 0, 1, 32, false);
    enc_l3_c1_borrow = (3, 1, 3, 0, 0, 32, false);
    enc_l4_c0_copy = (4, 0, 4, 0, 1, 32, false);
    enc_l4_c1_copy = (4, 1, 4, 0, 1, 32, false);
    enc_l4_c2_copy = (4, 2, 4, 0, 1, 32, false);
    enc_l4_c2_copy_witness = (4, 2, 4, 0, 1, 32, true);
    enc_l4_c3_copy = (4, 3, 4, 0, 1, 32, false);
    enc_l4_c2_borrow = (4, 2, 4, 0, 0, 32, false);
    enc_l4_c1_borrow = (4, 1, 4, 0, 0, 32, false);
    enc_l4_c2_anchored = (4, 2, 4, 0, 2, 32, false);
    enc_l4_c13_copy = (4, 1, 3, 0, 1, 32, false);
    enc_l5_c2_copy = (5, 2, 5, 0, 1, 32, false);
    enc_l5_c3_borrow = (5, 3, 5, 0, 0, 32, false);
    enc_l6_c3_copy = (6, 3, 6, 0, 1, 32, false);
    enc_l4_c2_mixed = (4, 2, 4, 0, 3, 32, false);
    drain_l4_c2_slices = (4, 2, 4, 3, 1, 32, false);
    drain_l4_c2_bytes = (4, 2, 4, 4, 1, 32, false);
    drain_l4_c1_bytes = (4, 1, 4, 4, 1, 32, false);
    drain_l4_c3_slices = (4, 3, 4, 3, 0, 32, false);
    drain_l5_c2_sym = (5, 2, 5, 1, 1, 32, false);
}
