//! Production constants (built with the limit-replacing twin OFF, so the
//! real `PROD_PARAMS` expression is what is checked).
//!
//! 1. header kernel (hook H4): for every chunk size 0..=64008 the backfilled
//!    header is [size mod 253, size div 253], both digits < 0xFD.
//! 2. decoder header acceptance: first byte accepted iff <= 252; a two-byte
//!    header (d0, d1) accepted iff both digits < 253 and d0 + 253 d1 <= 64008.
//! 3. the limits in force are exactly 252 / 64008.
use crate::probe::*;
use hcobs::Decoder;
use owning_iovec::OwningIovec;

#[kani::proof]
#[kani::unwind(12)]
fn prod_limits_are_252_and_64008() {
    let (a, b) = hcobs::verif_hooks::limits();
    assert_eq!(a, 252);
    assert_eq!(b, 64008);
    assert_eq!(hcobs::RADIX, 253);
    assert!(hcobs::STUFF_SEQUENCE == [0xFE, 0xFD]);
}

#[kani::proof]
#[kani::unwind(12)]
fn prod_header_kernel_two_bytes() {
    let size: usize = kani::any();
    kani::assume(size <= 64008);
    let mut iovec = OwningIovec::new();
    let backref = iovec.register_patch(&[0u8, 0u8]);
    hcobs::verif_hooks::encode_header(size, &mut iovec, backref);
    let slices = match iovec.iovs() {
        Ok(s) => s,
        Err(_) => {
            assert!(false, "header backfilled");
            return;
        }
    };
    assert_eq!(total(slices), 2);
    let d0 = byte_at(slices, 0).unwrap() as usize;
    let d1 = byte_at(slices, 1).unwrap() as usize;
    assert!(d0 < 0xFD && d1 < 0xFD);
    assert_eq!(d0, size % 253);
    assert_eq!(d1, size / 253);
    assert_eq!(d0 + 253 * d1, size);
    kani::cover!(size == 64008, "largest chunk");
    kani::cover!(size == 253, "first size with a non-zero high digit");
    std::mem::forget(iovec);
}

#[kani::proof]
#[kani::unwind(12)]
fn prod_header_kernel_one_byte() {
    let size: usize = kani::any();
    kani::assume(size <= 252);
    let mut iovec = OwningIovec::new();
    let backref = iovec.register_patch(&[0u8]);
    hcobs::verif_hooks::encode_header(size, &mut iovec, backref);
    let slices = match iovec.iovs() {
        Ok(s) => s,
        Err(_) => {
            assert!(false, "header backfilled");
            return;
        }
    };
    assert_eq!(total(slices), 1);
    assert_eq!(byte_at(slices, 0).unwrap() as usize, size);
    std::mem::forget(iovec);
}

#[kani::proof]
#[kani::unwind(12)]
fn prod_decoder_first_header() {
    let h: u8 = kani::any();
    let mut dec = Decoder::new();
    let ok = dec.decode_copy(&[h]).is_ok();
    assert_eq!(ok, h <= 252);
    if ok {
        // an empty first chunk (h == 0) is a complete message; anything else is cut short
        let fin = dec.finish();
        assert_eq!(fin.is_ok(), h == 0);
        std::mem::forget(fin);
    } else {
        std::mem::forget(dec);
    }
}

#[kani::proof]
#[kani::unwind(12)]
fn prod_decoder_second_header() {
    let d0: u8 = kani::any();
    let d1: u8 = kani::any();
    let mut dec = Decoder::new();
    assert!(dec.decode_copy(&[0u8]).is_ok());
    let ok = dec.decode_copy(&[d0, d1]).is_ok();
    let size = d0 as usize + 253 * d1 as usize;
    assert_eq!(ok, d0 < 253 && d1 < 253 && size <= 64008);
    if ok {
        // complete exactly when the announced chunk is empty (and short)
        let fin = dec.finish();
        assert_eq!(fin.is_ok(), size == 0);
        std::mem::forget(fin);
    } else {
        std::mem::forget(dec);
    }
    kani::cover!(ok && size == 64008, "largest announced chunk");
    kani::cover!(!ok && d0 < 253 && d1 < 253, "digits fine but size above the limit");
}

static ZEROS: [u8; 64008] = [0u8; 64008];

/// A chunk of exactly 64008 bytes is NOT followed by an implicit stuff
/// sequence (so the message cannot end there), a chunk of 64007 bytes is.
#[kani::proof]
#[kani::unwind(12)]
fn prod_decoder_full_chunk_has_no_implicit_stuff() {
    let size: usize = kani::any();
    kani::assume(size == 64008 || size == 64007 || size == 1);
    let d0 = (size % 253) as u8;
    let d1 = (size / 253) as u8;
    let mut dec = Decoder::new();
    assert!(dec.decode_copy(&[0u8]).is_ok());
    assert!(dec.decode_copy(&[d0, d1]).is_ok());
    assert!(dec.decode(&ZEROS[..size]).is_ok());
    let fin = dec.finish();
    assert_eq!(fin.is_ok(), size < 64008);
    if let Ok(out) = &fin {
        // FE FD (the first chunk was empty and short) + the payload
        assert_eq!(out.total_size(), size + 2);
    }
    std::mem::forget(fin);
}
