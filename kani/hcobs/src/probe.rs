//! Observation helpers: the exposed IoSlices are compared with an oracle at a
//! symbolic probe position (the solver quantifies over the position), which
//! avoids flattening through symbolic-size allocations.
use std::io::IoSlice;

pub const MAXS: usize = 6;

/// Byte at logical position `j` of the concatenation of `slices`.
pub fn byte_at(slices: &[IoSlice<'_>], j: usize) -> Option<u8> {
    let mut off = 0usize;
    let mut i = 0;
    while i < MAXS {
        if i < slices.len() {
            let s: &[u8] = &slices[i];
            if j < off + s.len() {
                return Some(s[j - off]);
            }
            off += s.len();
        }
        i += 1;
    }
    None
}

pub fn total(slices: &[IoSlice<'_>]) -> usize {
    let mut off = 0usize;
    let mut i = 0;
    while i < MAXS {
        if i < slices.len() {
            off += slices[i].len();
        }
        i += 1;
    }
    off
}

pub fn no_empty_slice(slices: &[IoSlice<'_>]) -> bool {
    let mut ok = true;
    let mut i = 0;
    while i < MAXS {
        if i < slices.len() && slices[i].len() == 0 {
            ok = false;
        }
        i += 1;
    }
    ok
}
