//! `hcobs::find_stuff_sequence` (shared by the Encoder, C02/C07, and the
//! StreamChunker, C08): for EVERY byte string of length <= 40 it returns the
//! index of the first FE FD occurrence, or None when there is none.
const N: usize = 40;

#[kani::proof]
#[kani::unwind(42)]
fn fss_first_occurrence() {
    let bytes: [u8; N] = kani::any();
    let len: usize = kani::any();
    kani::assume(len <= N);
    let got = hcobs::find_stuff_sequence(&bytes[..len]);
    // reference: smallest i with bytes[i] == FE and bytes[i+1] == FD
    let mut want: Option<usize> = None;
    let mut i = 0;
    while i + 1 < N {
        if want.is_none() && i + 1 < len && bytes[i] == 0xFE && bytes[i + 1] == 0xFD {
            want = Some(i);
        }
        i += 1;
    }
    assert_eq!(got, want);
    kani::cover!(want == Some(15), "stuff sequence straddling a 16-byte boundary");
    kani::cover!(want == Some(31), "stuff sequence straddling a 32-byte boundary");
    kani::cover!(want.is_none() && len == N, "no stuff sequence in a full-length string");
}
