//! Reference HCOBS codec, written from the format description (not from the
//! implementation) and parameterised by the two chunk limits.
//!
//! Format: the message is a sequence of chunks; a chunk is a size header
//! followed by `size` payload bytes.  The first header is one byte, later
//! headers are two bytes, little-endian radix-253 digits.  The encoder is
//! greedy: a chunk ends at the first stuff sequence FE FD that fits entirely
//! inside the chunk's capacity (the two bytes are dropped and implied by the
//! chunk being shorter than its limit), or when it reaches its limit.  The
//! message ends with a short chunk.
pub const CAP: usize = 24;
pub const RADIX: usize = 253;

pub struct Buf {
    pub b: [u8; CAP],
    pub len: usize,
}

impl Buf {
    pub fn new() -> Buf {
        Buf { b: [0u8; CAP], len: 0 }
    }

    pub fn push(&mut self, x: u8) {
        self.b[self.len] = x;
        self.len += 1;
    }
}

/// Canonical encoding of `data[..len]` with first-chunk limit `a` and
/// later-chunk limit `b`.
pub fn ref_encode<const N: usize>(data: &[u8], len: usize, a: usize, b: usize) -> Buf {
    // N bounds the input length: at most N + 1 chunks of at most N bytes each
    assert!(len <= N);
    let mut out = Buf::new();
    let mut pos = 0usize;
    let mut max = a;
    let mut first = true;
    // at most len + 1 chunks
    let mut guard = 0;
    while guard < N + 2 {
        guard += 1;
        let mut size = 0usize;
        let mut by_stuff = false;
        let mut scan = 0;
        while scan < N + 1 {
            scan += 1;
            if !(size < max && pos + size < len) {
                break;
            }
            if data[pos + size] == 0xFE && pos + size + 1 < len && data[pos + size + 1] == 0xFD && size + 2 <= max {
                by_stuff = true;
                break;
            }
            size += 1;
        }
        if first {
            out.push((size % RADIX) as u8);
        } else {
            out.push((size % RADIX) as u8);
            out.push((size / RADIX) as u8);
        }
        let mut i = 0;
        while i < N {
            if i < size {
                out.push(data[pos + i]);
            }
            i += 1;
        }
        if by_stuff {
            pos += size + 2;
        } else if size == max {
            pos += size;
        } else {
            break;
        }
        first = false;
        max = b;
    }
    out
}

/// Reference decoder: `Some(plain)` exactly for well-formed chunk sequences
/// that end on a short chunk.
pub fn ref_decode<const N: usize>(enc: &[u8], len: usize, a: usize, b: usize) -> Option<Buf> {
    // N bounds the encoded length: at most N chunks of at most N bytes each
    assert!(len <= N);
    let mut out = Buf::new();
    if len == 0 {
        return None;
    }
    let mut pos = 0usize;
    let mut first = true;
    let mut last_short = false;
    let mut guard = 0;
    while guard < N + 1 {
        guard += 1;
        if pos == len {
            break;
        }
        let size;
        let limit;
        if first {
            size = enc[pos] as usize;
            limit = a;
            pos += 1;
        } else {
            // a short previous chunk stands for a stuff sequence before this chunk
            if last_short {
                if out.len + 2 > CAP {
                    return None;
                }
                out.push(0xFE);
                out.push(0xFD);
            }
            let d0 = enc[pos] as usize;
            if d0 >= RADIX {
                return None;
            }
            if pos + 1 >= len {
                return None; // cut short mid-header
            }
            let d1 = enc[pos + 1] as usize;
            if d1 >= RADIX {
                return None;
            }
            size = d0 + RADIX * d1;
            limit = b;
            pos += 2;
        }
        if size > limit {
            return None;
        }
        if pos + size > len {
            return None; // cut short mid-chunk
        }
        let mut i = 0;
        while i < N {
            if i < size {
                if out.len >= CAP {
                    return None;
                }
                out.push(enc[pos + i]);
            }
            i += 1;
        }
        pos += size;
        last_short = size < limit;
        first = false;
    }
    if last_short {
        Some(out)
    } else {
        None
    }
}
