//! Kani harnesses for the HCOBS codec (C01, C02, C07, C09).
#![allow(clippy::all)]

#[cfg(kani)]
mod refcodec;
#[cfg(kani)]
mod probe;
#[cfg(kani)]
mod lemmas;
#[cfg(kani)]
mod enc;
#[cfg(kani)]
mod dec;
#[cfg(kani)]
mod prod;
#[cfg(kani)]
mod fss;

