//! Kani harnesses for the HCOBS codec (C01, C02, C07, C09).
#![allow(clippy::all)]

#[cfg(kani)]
mod refcodec;
#[cfg(kani)]
mod probe;
#[cfg(kani)]
mod lemmas;
#[cfg(kani)]
mod enc;
#[cfg(kani)]
mod dec;
#[cfg(kani)]
mod prod;
#[cfg(kani)]
mod fss;

/// Stub for the arena's private slow path (`ByteArena::grow_and_alloc`): in these harnesses the
/// arena is pre-warmed with one 32-byte chunk and fewer than 32 bytes are ever copied, so the slow
/// path (drop the old chunk, size a new one, allocate it) is never taken; the stub turns any use
/// of it into a failed check instead of encoding it at every copy site.
#[cfg(kani)]
pub fn stub_grow_and_alloc(
    _arena: &mut owning_iovec::ByteArena,
    _len: usize,
    _old: Option<&mut owning_iovec::Anchor>,
) -> (std::io::IoSlice<'static>, Option<owning_iovec::Anchor>) {
    assert!(false, "arena regrowth is outside the bound of this harness");
    kani::assume(false);
    unreachable!()
}
