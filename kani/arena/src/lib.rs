//! Kani harnesses for ByteArena::read_n and the codec read wrappers (C17).
#![allow(clippy::all)]

#[cfg(kani)]
mod c17;
