//! C17: arena reads return exactly what the reader delivered, under any I/O
//! faults.
//!
//! The reader is a nondeterministic stub driven by a symbolic script of up to
//! 4 actions over {deliver k bytes (1..=3), Interrupted, EOF, other error}.
//! It records how it was called so that the harness can assert the call
//! protocol (at most `max_attempts` calls, never more than `count` bytes
//! requested in total, no call after EOF / hard error / buffer full).
use owning_iovec::ByteArena;
use std::io::ErrorKind;
use std::io::Read;
use std::num::NonZeroUsize;

const SCRIPT: usize = 4;
/// quick tier: scripts (and attempt budgets) of at most 3 actions
pub const QUICK: usize = 3;

const DELIVER: u8 = 0;
const EINTR: u8 = 1;
const EOF: u8 = 2;
const HARD: u8 = 3;

pub struct Script {
    pub kind: [u8; SCRIPT],
    pub k: [usize; SCRIPT],
    pub data: [u8; 16],
    pub calls: usize,
    pub delivered: usize,
    pub count: usize,
    pub script_len: usize,
    pub stopped: bool,       // EOF, hard error or buffer full already happened
    pub last_err: u8,        // 0 none, 1 interrupted, 2 hard
    pub saw_eof: bool,
    pub protocol_ok: bool,
}

impl Script {
    pub fn any(count: usize, script_len: usize) -> Script {
        let kind: [u8; SCRIPT] = kani::any();
        let k: [usize; SCRIPT] = kani::any();
        let mut i = 0;
        while i < SCRIPT {
            kani::assume(kind[i] <= HARD);
            kani::assume(k[i] >= 1 && k[i] <= 3);
            i += 1;
        }
        Script {
            kind,
            k,
            data: kani::any(),
            calls: 0,
            delivered: 0,
            count,
            script_len,
            stopped: false,
            last_err: 0,
            saw_eof: false,
            protocol_ok: true,
        }
    }
}

impl Read for &mut Script {
    fn read(&mut self, dst: &mut [u8]) -> std::io::Result<usize> {
        // call protocol
        if self.stopped || self.calls >= self.script_len {
            self.protocol_ok = false;
            return Ok(0);
        }
        // never asks for more than `count` bytes in total
        if dst.is_empty() || dst.len() > self.count - self.delivered {
            self.protocol_ok = false;
        }
        let idx = self.calls;
        self.calls += 1;
        match self.kind[idx] {
            DELIVER => {
                let n = if self.k[idx] < dst.len() { self.k[idx] } else { dst.len() };
                if n > 0 {
                    dst[0] = self.data[self.delivered];
                }
                if n > 1 {
                    dst[1] = self.data[self.delivered + 1];
                }
                if n > 2 {
                    dst[2] = self.data[self.delivered + 2];
                }
                self.delivered += n;
                self.last_err = self.last_err; // delivering does not clear a pending error
                if self.delivered == self.count {
                    self.stopped = true;
                }
                Ok(n)
            }
            EINTR => {
                self.last_err = 1;
                Err(ErrorKind::Interrupted.into())
            }
            EOF => {
                self.saw_eof = true;
                self.stopped = true;
                Ok(0)
            }
            _ => {
                self.last_err = 2;
                self.stopped = true;
                Err(ErrorKind::Other.into())
            }
        }
    }
}

/// `count` is concrete per job: a symbolic count makes the arena's chunk size
/// (`hint.max(wanted)`) a symbolic allocation size, which CBMC cannot
/// bit-blast within 12 GB.
fn read_n_body(count: usize, prefill: Option<usize>, witness: bool, maxlen: usize) {
    let attempts: usize = kani::any();
    kani::assume(attempts >= 1 && attempts <= maxlen);
    let mut script = Script::any(count, maxlen);

    let mut arena = ByteArena::new();
    // Arena pre-state: no cache at all, or a chunk with `r` bytes left.
    if let Some(used) = prefill {
        let filler = [0x55u8; 8];
        // no `expect` on an io::Result: its Debug formatting drags in a large part of std
        let got = match arena.read_n(&filler[..], used, NonZeroUsize::new(1).unwrap()) {
            Ok(got) => got,
            Err(_) => {
                assert!(false, "slice readers do not fail");
                return;
            }
        };
        assert_eq!(got.slice().len(), used);
        std::mem::forget(got);
    }

    let res = arena.read_n(&mut script, count, NonZeroUsize::new(attempts).unwrap());

    assert!(script.protocol_ok);
    assert!(script.calls <= attempts);
    assert!(script.delivered <= count);
    if count == 0 {
        assert_eq!(script.calls, 0);
    }
    match &res {
        Ok(slice) => {
            let s = slice.slice();
            // exactly the delivered bytes, in order
            assert_eq!(s.len(), script.delivered);
            let j: usize = kani::any();
            if j < s.len() {
                assert_eq!(s[j], script.data[j]);
            }
            // success only with data, or when EOF came first (or nothing was asked)
            assert!(script.delivered > 0 || script.saw_eof || count == 0);
        }
        Err(e) => {
            // fails only when nothing was delivered, with the last error
            assert_eq!(script.delivered, 0);
            assert!(!script.saw_eof);
            assert!(script.last_err != 0);
            let want = if script.last_err == 1 { ErrorKind::Interrupted } else { ErrorKind::Other };
            assert!(e.kind() == want);
        }
    }
    // the retry loop stops only for a reason: budget exhausted, buffer full, EOF or hard error
    if script.calls < attempts && count > 0 {
        assert!(script.stopped);
    }

    kani::cover!(res.is_err() && script.calls == attempts && attempts == 3 && script.last_err == 1, "all attempts interrupted");
    kani::cover!(res.is_ok() && script.delivered == 0 && script.saw_eof && script.calls >= 2, "Interrupted then EOF: empty success");
    kani::cover!(res.is_ok() && script.last_err == 2 && script.delivered > 0, "hard error after data is a success");
    kani::cover!(res.is_ok() && script.delivered == count && count >= 3 && script.calls >= 2, "filled through short reads");
    kani::cover!(res.is_ok() && script.calls == attempts && script.delivered < count && !script.stopped, "attempt budget exhausted with a short result");
    std::mem::forget(res);
    std::mem::forget(arena);
    if witness {
        assert!(false, "reachability witness: harness end reached");
    }
}

macro_rules! read_n_proofs {
    ($($name:ident = ($count:expr, $prefill:expr, $w:expr, $len:expr);)*) => {
        $(
            #[kani::proof]
            #[kani::unwind(10)]
            fn $name() {
                read_n_body($count, $prefill, $w, $len)
            }
        )*
    };
}

// prefill Some(5): 8-byte chunk with 3 bytes left (count 4 regrows);
// prefill Some(8): chunk exactly full (every read regrows).
read_n_proofs! {
    c17_read_n_c0_fresh = (0, None, false, 4);
    c17_read_n_c1_fresh = (1, None, false, 4);
    c17_read_n_c2_fresh = (2, None, false, 4);
    c17_read_n_c3_fresh = (3, None, false, 4);
    c17_read_n_c4_fresh = (4, None, false, 4);
    c17_read_n_c0_nearly_full = (0, Some(5), false, 4);
    c17_read_n_c3_nearly_full = (3, Some(5), false, 4);
    c17_read_n_c4_nearly_full = (4, Some(5), false, 4);
    c17_read_n_c2_full_chunk = (2, Some(8), false, 4);
    c17_read_n_c4_full_chunk = (4, Some(8), false, 4);
    c17_q_read_n_c3_fresh = (3, None, false, 3);
    c17_q_read_n_c3_fresh_witness = (3, None, true, 3);
    c17_q_read_n_c2_nearly_full = (2, Some(6), false, 3);
    c17_q_read_n_c3_nearly_full = (3, Some(6), false, 3);
    c17_q_read_n_c1_full_chunk = (1, Some(8), false, 3);
}
