//! C08: StreamChunker tiles the input stream exactly; sentinels are never
//! hidden in data.
//!
//! stream: arbitrary bytes, symbolic length <= S; reader: symbolic schedule
//! of short reads / interrupted calls; io_block_size: concrete per job (a
//! symbolic block size makes the arena allocation size symbolic).  Oracle:
//! the tiling predicate of the property, checked after every pump.
use crate::reader::SchedReader;
use hcobs::Chunk;
use hcobs::StreamChunker;
use owning_iovec::ByteArena;

fn tiling<const S: usize>(block: usize, sched: bool, prefill: usize, witness: bool) {
    let stream: [u8; S] = kani::any();
    let len: usize = kani::any();
    kani::assume(len <= S);
    let data = &stream[..len];
    let mut reader = if sched { SchedReader::any(data) } else { SchedReader::full(data) };
    let mut arena = ByteArena::new();
    if prefill > 0 {
        // arena state: a chunk with (8 - prefill) bytes left
        let filler = [0x55u8; 8];
        match arena.read_n(&filler[..], prefill, std::num::NonZeroUsize::new(1).unwrap()) {
            Ok(got) => std::mem::forget(got),
            Err(_) => {
                assert!(false, "slice readers do not fail");
                return;
            }
        }
    }
    let mut chunker = StreamChunker::default();

    let mut sum: usize = 0; // running sum of chunk sizes == absolute position
    let mut prev_data_ended_in_fe = false;
    let mut saw_eof = false;
    let mut sentinels = 0usize;
    let mut datas = 0usize;
    let mut k = 0;
    // every chunk covers at least one byte, so at most S chunks precede Eof
    while k < S + 1 {
        if !saw_eof {
            let chunk = match chunker.pump(&mut arena, &mut reader, block) {
                Ok(chunk) => chunk,
                Err(_) => {
                    // the stub only produces Interrupted, which read_n retries
                    assert!(false, "pump must not fail: only interrupted calls are injected");
                    return;
                }
            };
            match chunk {
                Chunk::Sentinel(off) => {
                    assert_eq!(off as usize, sum + 2);
                    assert!(sum + 2 <= len);
                    assert!(stream[sum] == 0xFE && stream[sum + 1] == 0xFD);
                    sum += 2;
                    prev_data_ended_in_fe = false;
                    sentinels += 1;
                }
                Chunk::Data((off, slice)) => {
                    let s = slice.slice();
                    assert!(!s.is_empty());
                    assert_eq!(off as usize, sum + s.len());
                    assert!(sum + s.len() <= len);
                    // contents equal the stream (symbolic probe position)
                    let j: usize = kani::any();
                    if j < s.len() {
                        assert_eq!(s[j], stream[sum + j]);
                    }
                    // no stuff sequence inside (symbolic probe pair)
                    if j + 1 < s.len() {
                        assert!(!(s[j] == 0xFE && s[j + 1] == 0xFD));
                    }
                    // nor straddling two consecutive Data chunks
                    assert!(!(prev_data_ended_in_fe && s[0] == 0xFD));
                    prev_data_ended_in_fe = s[s.len() - 1] == 0xFE;
                    sum += s.len();
                    datas += 1;
                    std::mem::forget(slice);
                }
                Chunk::Eof => {
                    // only at the real end of the stream
                    assert_eq!(sum, len);
                    assert!(reader.eof_reported);
                    saw_eof = true;
                }
            }
        }
        k += 1;
    }
    // the loop bound is enough to reach Eof for every stream within the bound
    if !saw_eof {
        let last = chunker.pump(&mut arena, &mut reader, block);
        match last {
            Ok(Chunk::Eof) => {
                assert_eq!(sum, len);
                saw_eof = true;
            }
            _ => assert!(false, "more chunks than bytes"),
        }
    }
    assert!(saw_eof);
    // reads are requested in blocks: never more than max(block, 2) at a time
    let bound = if block < 2 { 2 } else { block };
    assert!(reader.max_asked <= bound);

    kani::cover!(sentinels >= 1 && datas >= 2, "data, sentinel, data");
    kani::cover!(sentinels >= 2, "two sentinels");
    kani::cover!(len == S && sentinels == 0 && datas >= 2, "sentinel-free stream split into several data chunks");
    kani::cover!(len >= 2 && stream[len - 1] == 0xFE && sentinels == 0, "stream ends in a lone FE");
    std::mem::forget(chunker);
    std::mem::forget(arena);
    if witness {
        assert!(false, "reachability witness: harness end reached");
    }
}

macro_rules! tiling_proofs {
    ($($name:ident = ($s:expr, $block:expr, $sched:expr, $prefill:expr, $w:expr);)*) => {
        $(
            #[kani::proof]
            #[kani::unwind(10)]
            fn $name() {
                tiling::<$s>($block, $sched, $prefill, $w)
            }
        )*
    };
}

tiling_proofs! {
    c08_s4_b0 = (4, 0, true, 0, false);
    c08_s4_b1 = (4, 1, true, 0, false);
    c08_s4_b2 = (4, 2, true, 0, false);
    c08_s4_b3 = (4, 3, true, 0, false);
    c08_s4_b4 = (4, 4, true, 0, false);
    c08_s4_b3_witness = (4, 3, true, 0, true);
    c08_s4_b3_prefill7 = (4, 3, true, 7, false);
    c08_s6_b2 = (6, 2, true, 0, false);
    c08_s6_b3 = (6, 3, true, 0, false);
    c08_s6_b4 = (6, 4, true, 0, false);
    c08_s6_b5 = (6, 5, true, 0, false);
    c08_s6_b8_full = (6, 8, false, 0, false);
}
