//! C08: StreamChunker tiles the input stream exactly; sentinels are never
//! hidden in data.
//!
//! stream: arbitrary bytes, symbolic length <= S; reader: symbolic schedule
//! of short reads / interrupted calls; io_block_size: concrete per job (a
//! symbolic block size makes the arena allocation size symbolic).  Oracle:
//! the tiling predicate of the property, checked after every pump.
use crate::reader::SchedReader;
use hcobs::Chunk;
use hcobs::StreamChunker;
use owning_iovec::ByteArena;

/// One inductive step: `pump` from an ARBITRARY chunker state.
///
/// State invariant I(chunker, reader, logical stream): the carry-over buffer
/// holds the next |buf| <= max(block, 2) bytes of the logical stream after
/// the bytes already emitted (`offset`), and the reader is positioned right
/// after them.  Index 0 of `stream` is the first not-yet-emitted byte; the
/// emitted-byte count `base` is an arbitrary u64.  The default chunker with a
/// fresh reader satisfies I (buf empty, base 0), and the step shows that I is
/// preserved and that the returned chunk obeys every clause of the property,
/// so every pump sequence tiles the stream (for carry-over buffers and
/// remaining streams within the bound).
fn step<const S: usize>(block: usize, sched: usize, witness: bool) {
    let m = if block < 2 { 2 } else { block };
    let stream: [u8; S] = kani::any();
    let len: usize = kani::any();
    let bl: usize = kani::any();
    let base: u64 = kani::any();
    kani::assume(len <= S && bl <= len && bl <= m);
    kani::assume(base <= 1 << 48);

    let mut arena = ByteArena::new();
    // carry-over buffer = stream[..bl], as an AnchoredSlice from the same arena
    let buf = if S.min(m) == 0 {
        owning_iovec::AnchoredSlice::default()
    } else {
        let cap = if S < m { S } else { m };
        match arena.read_n(&stream[..cap], cap, std::num::NonZeroUsize::new(1).unwrap()) {
            Ok(mut got) => {
                got.drop_suffix(cap - bl);
                got
            }
            Err(_) => {
                assert!(false, "slice readers do not fail");
                return;
            }
        }
    };
    let mut chunker = StreamChunker::verif_from_parts(buf, base);
    let mut reader = SchedReader::any_n(&stream[bl..len], sched);

    let chunk = match chunker.pump(&mut arena, &mut reader, block) {
        Ok(chunk) => chunk,
        Err(_) => {
            assert!(false, "pump must not fail: only interrupted calls are injected");
            return;
        }
    };
    // emitted bytes of this step, in logical coordinates
    let emitted: usize;
    match chunk {
        Chunk::Sentinel(off) => {
            assert!(len >= 2 && stream[0] == 0xFE && stream[1] == 0xFD);
            assert_eq!(off, base + 2);
            emitted = 2;
        }
        Chunk::Data((off, slice)) => {
            let s = slice.slice();
            assert!(!s.is_empty());
            assert!(s.len() <= len);
            assert_eq!(off, base + s.len() as u64);
            let j: usize = kani::any();
            if j < s.len() {
                assert_eq!(s[j], stream[j]);
                // no stuff sequence inside
                if j >= 1 {
                    assert!(!(s[j - 1] == 0xFE && s[j] == 0xFD));
                }
            }
            // no stuff sequence straddling this chunk and whatever comes next
            if s[s.len() - 1] == 0xFE && s.len() < len {
                assert!(stream[s.len()] != 0xFD);
            }
            // a sentinel at the front is never hidden inside a data chunk
            assert!(!(len >= 2 && stream[0] == 0xFE && stream[1] == 0xFD));
            emitted = s.len();
            if sched >= 2 {
                kani::cover!(s.len() >= 2 && s.len() < len && stream[s.len()] == 0xFE, "data split right before a held-back FE");
                kani::cover!(s[s.len() - 1] == 0xFE, "data chunk ending in FE (no FD follows)");
            }
            std::mem::forget(slice);
        }
        Chunk::Eof => {
            // only at the real end of the stream
            assert!(len == 0);
            assert!(reader.eof_reported);
            emitted = 0;
        }
    }
    // post-state satisfies the invariant
    let nb = chunker.verif_buf();
    assert_eq!(chunker.verif_offset(), base + emitted as u64);
    assert!(nb.len() <= m);
    assert!(emitted + nb.len() <= len);
    assert_eq!(bl + reader.pos, emitted + nb.len());
    let j: usize = kani::any();
    if j < nb.len() {
        assert_eq!(nb[j], stream[emitted + j]);
    }
    // I/O happens in blocks
    assert!(reader.max_asked <= m);

    kani::cover!(bl == 1 && stream[0] == 0xFE && len >= 2 && stream[1] == 0xFD, "carried FE completed by FD from the reader");
    if sched >= 2 {
        kani::cover!(bl == 0 && len == 0, "end of stream");
        kani::cover!(bl == m && emitted > 0, "full carry-over buffer");
    }
    if sched >= 2 {
        kani::cover!(reader.calls >= 3, "short reads and an interrupted call");
    }
    std::mem::forget(chunker);
    std::mem::forget(arena);
    if witness {
        assert!(false, "reachability witness: harness end reached");
    }
}

macro_rules! step_proofs {
    ($($name:ident = ($s:expr, $block:expr, $sched:expr, $w:expr);)*) => {
        $(
            #[kani::proof]
            #[kani::unwind(10)]
            fn $name() {
                step::<$s>($block, $sched, $w)
            }
        )*
    };
}

step_proofs! {
    c08_step_s4_b0 = (4, 0, 2, false);
    c08_step_s4_b1 = (4, 1, 2, false);
    c08_step_s4_b2 = (4, 2, 2, false);
    c08_step_s5_b3 = (5, 3, 2, false);
    c08_step_s5_b3_witness = (5, 3, 2, true);
    c08_step_s6_b4 = (6, 4, 2, false);
    c08_step_s6_b2 = (6, 2, 2, false);
    c08_step_s6_b3 = (6, 3, 2, false);
    c08_step_s8_b5 = (8, 5, 2, false);
    c08_step_s8_b6 = (8, 6, 2, false);
    // quick tier: one symbolic reader call (short read or interrupted call), then full reads
    c08_q_s4_b0 = (4, 0, 1, false);
    c08_q_s5_b3 = (5, 3, 1, false);
    c08_q_s6_b4 = (6, 4, 1, false);
    c08_q_s5_b3_witness = (5, 3, 1, true);
    c08_q0_s6_b4 = (6, 4, 0, false);
}
