//! C06: StreamReader returns exactly the valid delimited records.
//!
//! Assume/guarantee decomposition: C08 proves (one step from every state)
//! that `StreamChunker::pump` tiles the stream with chunks obeying the C08
//! contract.  Here `pump` is REPLACED (Kani stubbing) by a nondeterministic
//! generator of every chunk sequence allowed by that contract over a symbolic
//! stream — data runs are cut at arbitrary symbolic points — and the real
//! `StreamReader::next_record_bytes` (record assembly, decoder, judge
//! handling, skip / stop logic) is checked against a reference splitter and
//! the reference decoder.  Because the chunk boundaries are symbolic, one
//! query covers every read schedule and every block size at once.
use hcobs::Chunk;
use hcobs::StreamChunker;
use hcobs::StreamReader;
use owning_iovec::ByteArena;
use std::io::IoSlice;

pub const S: usize = 6;

pub struct Stream {
    pub bytes: [u8; S],
    pub len: usize,
    pub pos: usize,
    pub pumps: usize,
}

pub static mut STREAM: Stream = Stream { bytes: [0u8; S], len: 0, pos: 0, pumps: 0 };

/// Contract-satisfying replacement for `StreamChunker::pump`.
pub fn stub_pump<R: std::io::Read>(
    _this: &mut StreamChunker,
    arena: &mut ByteArena,
    _reader: R,
    _io_block_size: usize,
) -> std::io::Result<Chunk> {
    let st = unsafe { &mut *std::ptr::addr_of_mut!(STREAM) };
    st.pumps += 1;
    let (pos, len) = (st.pos, st.len);
    if pos == len {
        return Ok(Chunk::Eof);
    }
    if pos + 2 <= len && st.bytes[pos] == 0xFE && st.bytes[pos + 1] == 0xFD {
        st.pos += 2;
        return Ok(Chunk::Sentinel(st.pos as u64));
    }
    // a data run of arbitrary length d >= 1 that contains no stuff sequence and
    // does not leave one straddling its end
    let d: usize = kani::any();
    kani::assume(d >= 1 && pos + d <= len);
    let mut i = 0;
    while i < S {
        if i + 1 < d {
            kani::assume(!(st.bytes[pos + i] == 0xFE && st.bytes[pos + i + 1] == 0xFD));
        }
        i += 1;
    }
    if pos + d < len {
        kani::assume(!(st.bytes[pos + d - 1] == 0xFE && st.bytes[pos + d] == 0xFD));
    }
    // the run must stop before a sentinel that starts inside the remaining data:
    // (a stuff sequence starting at pos+d is fine: the next pump reports it)
    let avail = len - pos;
    let cap = if avail < S { avail } else { S };
    let mut got = match arena.read_n(&st.bytes[pos..len], S, std::num::NonZeroUsize::new(1).unwrap()) {
        Ok(got) => got,
        Err(_) => {
            assert!(false, "slice readers do not fail");
            return Ok(Chunk::Eof);
        }
    };
    assert!(got.slice().len() == cap);
    got.drop_suffix(cap - d);
    st.pos += d;
    Ok(Chunk::Data((st.pos as u64, got)))
}

fn flat(slices: &[IoSlice<'_>], j: usize) -> Option<u8> {
    let mut off = 0usize;
    let mut i = 0;
    while i < 4 {
        if i < slices.len() {
            let s: &[u8] = &slices[i];
            if j < off + s.len() {
                return Some(s[j - off]);
            }
            off += s.len();
        }
        i += 1;
    }
    None
}

/// Reference decoding of the segment bytes[a..b) with the production limits.
fn ref_record(bytes: &[u8; S], a: usize, b: usize) -> Option<crate::refcodec::Buf> {
    let mut seg = [0u8; S];
    let mut i = 0;
    while i < S {
        if a + i < b {
            seg[i] = bytes[a + i];
        }
        i += 1;
    }
    crate::refcodec::ref_decode::<S>(&seg, b - a, 252, 64008)
}

/// One step of the reference scan: skips delimiters from `from`, then returns the next
/// maximal stuff-free segment.  (segment, stopped_or_end, next scan position)
fn next_segment(bytes: &[u8; S], len: usize, from: usize, lim: u64) -> (Option<(usize, usize)>, bool, usize) {
    let mut pos = from;
    let mut stop = false;
    // the judge sees every skipped delimiter with range = end..end
    let mut k = 0;
    while k < S / 2 {
        if !stop && pos + 2 <= len && bytes[pos] == 0xFE && bytes[pos + 1] == 0xFD {
            pos += 2;
            if pos as u64 >= lim {
                stop = true;
            }
        }
        k += 1;
    }
    if stop || pos >= len {
        return (None, true, pos);
    }
    // ... and the first data chunk of a record with range.start = record start
    if pos as u64 >= lim {
        return (None, true, pos);
    }
    let mut end = len;
    let mut i = 0;
    while i < S {
        if i >= pos && i + 1 < len && end == len && bytes[i] == 0xFE && bytes[i + 1] == 0xFD {
            end = i;
        }
        i += 1;
    }
    let next = if end < len { end + 2 } else { len };
    (Some((pos, end)), false, next)
}

fn reader_records(max_fixed: usize, witness: bool) {
    let st = unsafe { &mut *std::ptr::addr_of_mut!(STREAM) };
    st.bytes = kani::any();
    st.len = kani::any();
    kani::assume(st.len <= S);
    st.pos = 0;
    st.pumps = 0;
    let bytes = st.bytes;
    let len = st.len;

    let max_size: usize = if max_fixed < 100 { max_fixed } else { kani::any() };
    let limit: Option<u64> = if kani::any() { None } else { Some(kani::any()) };
    let lim = match limit {
        Some(l) => l,
        None => u64::MAX,
    };

    // ---- reference: up to three segments (S <= 7 bytes hold at most three records) -------------
    let mut exp_start = [0usize; 3];
    let mut exp_end = [0usize; 3];
    let mut exp_plain: [Option<crate::refcodec::Buf>; 3] = [None, None, None];
    let mut nexp = 0usize;
    let mut from = 0usize;
    let mut finished = false;
    let mut s = 0;
    while s < 3 {
        if !finished {
            let (seg, stop, next) = next_segment(&bytes, len, from, lim);
            match seg {
                None => finished = true,
                Some((a, b)) => {
                    let _ = stop;
                    match ref_record(&bytes, a, b) {
                        Some(plain) if plain.len <= max_size => {
                            exp_start[nexp] = a;
                            exp_end[nexp] = b;
                            exp_plain[nexp] = Some(plain);
                            nexp += 1;
                        }
                        _ => {} // invalid or oversized: skipped silently
                    }
                    from = next;
                }
            }
        }
        s += 1;
    }

    // ---- implementation ---------------------------------------------------------------------
    let mut reader = StreamReader::new();
    let empty: &[u8] = &[];
    let mut call = 0;
    let mut done = false;
    while call < 3 {
        if !done {
            let got = reader.next_record_bytes(empty, StreamReader::chunk_judge(max_size, limit), Some(3));
            match got {
                Err(_) => assert!(false, "no I/O error is injected"),
                Ok(None) => {
                    assert!(call >= nexp);
                    done = true;
                }
                Ok(Some((iov, range))) => {
                    assert!(call < nexp);
                    let plain = exp_plain[call].as_ref().unwrap();
                    assert_eq!(range.start, exp_start[call] as u64);
                    assert_eq!(range.end, exp_end[call] as u64);
                    assert_eq!(iov.total_size(), plain.len);
                    let j: usize = kani::any();
                    if j < plain.len {
                        let sl = match iov.iovs() {
                            Ok(sl) => sl,
                            Err(_) => {
                                assert!(false, "records have no pending placeholder");
                                return;
                            }
                        };
                        assert!(flat(sl, j) == Some(plain.b[j]));
                    }
                    kani::cover!(exp_start[call] > 0 && plain.len > 0, "record after a skipped prefix or delimiter");
                }
            }
        }
        call += 1;
    }
    // every expected record was returned (or the third call was not needed)
    assert!(done || nexp >= 3);
    kani::cover!(nexp == 2, "two records");
    kani::cover!(st.pumps >= 4, "several chunks pumped");
    std::mem::forget(reader);
    if witness {
        assert!(false, "reachability witness: harness end reached");
    }
}

#[kani::proof]
#[kani::unwind(9)]
#[kani::stub(hcobs::StreamChunker::pump, stub_pump)]
fn c06_records_s6() {
    reader_records(1000, false)
}

#[kani::proof]
#[kani::unwind(9)]
#[kani::stub(hcobs::StreamChunker::pump, stub_pump)]
fn c06_records_s6_max2() {
    reader_records(2, false)
}

#[kani::proof]
#[kani::unwind(9)]
#[kani::stub(hcobs::StreamChunker::pump, stub_pump)]
fn c06_records_s6_witness() {
    reader_records(1000, true)
}
