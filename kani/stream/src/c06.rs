//! C06: StreamReader returns exactly the valid delimited records.
//!
//! Assume/guarantee decomposition: C08 proves (one step from every state)
//! that `StreamChunker::pump` tiles the stream with chunks obeying the C08
//! contract.  Here `pump` is REPLACED (Kani stubbing) by a nondeterministic
//! generator of every chunk sequence allowed by that contract over a symbolic
//! stream — data runs are cut at arbitrary symbolic points — and the real
//! `StreamReader::next_record_bytes` (record assembly, decoder, judge
//! handling, skip / stop logic) is checked against a reference splitter and
//! the reference decoder.  Because the chunk boundaries are symbolic, one
//! query covers every read schedule and every block size at once.
use hcobs::Chunk;
use hcobs::StreamChunker;
use hcobs::StreamReader;
use owning_iovec::ByteArena;
use std::io::IoSlice;

pub const S: usize = 6;

pub struct Stream {
    pub bytes: [u8; S],
    pub len: usize,
    pub pos: usize,
    pub pumps: usize,
}

pub static mut STREAM: Stream = Stream { bytes: [0u8; S], len: 0, pos: 0, pumps: 0 };

/// Contract-satisfying replacement for `StreamChunker::pump`.
pub fn stub_pump<R: std::io::Read>(
    _this: &mut StreamChunker,
    arena: &mut ByteArena,
    _reader: R,
    _io_block_size: usize,
) -> std::io::Result<Chunk> {
    let st = unsafe { &mut *std::ptr::addr_of_mut!(STREAM) };
    st.pumps += 1;
    let (pos, len) = (st.pos, st.len);
    if pos == len {
        return Ok(Chunk::Eof);
    }
    if pos + 2 <= len && st.bytes[pos] == 0xFE && st.bytes[pos + 1] == 0xFD {
        st.pos += 2;
        return Ok(Chunk::Sentinel(st.pos as u64));
    }
    // a data run of arbitrary length d >= 1 that contains no stuff sequence and
    // does not leave one straddling its end
    let d: usize = kani::any();
    kani::assume(d >= 1 && pos + d <= len);
    let mut i = 0;
    while i < S {
        if i + 1 < d {
            kani::assume(!(st.bytes[pos + i] == 0xFE && st.bytes[pos + i + 1] == 0xFD));
        }
        i += 1;
    }
    if pos + d < len {
        kani::assume(!(st.bytes[pos + d - 1] == 0xFE && st.bytes[pos + d] == 0xFD));
    }
    // the run must stop before a sentinel that starts inside the remaining data:
    // (a stuff sequence starting at pos+d is fine: the next pump reports it)
    let avail = len - pos;
    let cap = if avail < S { avail } else { S };
    let mut got = match arena.read_n(&st.bytes[pos..len], S, std::num::NonZeroUsize::new(1).unwrap()) {
        Ok(got) => got,
        Err(_) => {
            assert!(false, "slice readers do not fail");
            return Ok(Chunk::Eof);
        }
    };
    assert!(got.slice().len() == cap);
    got.drop_suffix(cap - d);
    st.pos += d;
    Ok(Chunk::Data((st.pos as u64, got)))
}

fn flat(slices: &[IoSlice<'_>], j: usize) -> Option<u8> {
    let mut off = 0usize;
    let mut i = 0;
    while i < 4 {
        if i < slices.len() {
            let s: &[u8] = &slices[i];
            if j < off + s.len() {
                return Some(s[j - off]);
            }
            off += s.len();
        }
        i += 1;
    }
    None
}

/// Reference decoding of the segment bytes[a..b) with the production limits.
fn ref_record(bytes: &[u8; S], a: usize, b: usize) -> Option<crate::refcodec::Buf> {
    let mut seg = [0u8; S];
    let mut i = 0;
    while i < S {
        if a + i < b {
            seg[i] = bytes[a + i];
        }
        i += 1;
    }
    crate::refcodec::ref_decode::<S>(&seg, b - a, 252, 64008)
}

fn reader_records(max_fixed: usize, witness: bool) {
    let st = unsafe { &mut *std::ptr::addr_of_mut!(STREAM) };
    st.bytes = kani::any();
    st.len = kani::any();
    kani::assume(st.len <= S);
    st.pos = 0;
    st.pumps = 0;
    let bytes = st.bytes;
    let len = st.len;

    let max_size: usize = if max_fixed < 100 { max_fixed } else { kani::any() };
    let limit: Option<u64> = if kani::any() { None } else { Some(kani::any()) };
    let lim = match limit {
        Some(l) => l as usize as u64,
        None => u64::MAX,
    };
    let mut reader = StreamReader::new();
    let empty: &[u8] = &[];

    // reference scan position
    let mut pos = 0usize;
    let mut done = false;
    let mut call = 0;
    while call < 3 {
        call += 1;
        if done {
            continue;
        }
        // ---- reference: find the next record to return -------------------------
        let mut expect: Option<(usize, usize, crate::refcodec::Buf)> = None; // start, end, decoded contents
        let mut guard = 0;
        while guard < S + 1 {
            guard += 1;
            // skip delimiters; the judge sees each of them with range = end..end
            let mut stop = false;
            let mut k = 0;
            while k < S / 2 + 1 {
                if pos + 2 <= len && bytes[pos] == 0xFE && bytes[pos + 1] == 0xFD {
                    pos += 2;
                    if pos as u64 >= lim {
                        stop = true;
                    }
                }
                k += 1;
            }
            if stop || pos == len {
                done = true;
                break;
            }
            // record = maximal stuff-free segment [pos, end)
            let mut end = len;
            let mut i = 0;
            while i < S {
                if i >= pos && i + 1 < len && end == len && bytes[i] == 0xFE && bytes[i + 1] == 0xFD {
                    end = i;
                }
                i += 1;
            }
            if pos as u64 >= lim {
                done = true;
                break;
            }
            let dec = ref_record(&bytes, pos, end);
            let next = if end < len { end + 2 } else { len };
            match dec {
                Some(plain) if plain.len <= max_size => {
                    expect = Some((pos, end, plain));
                    pos = next;
                    break;
                }
                _ => {
                    // invalid or oversized: skipped; the terminating delimiter is consumed silently
                    pos = next;
                }
            }
        }
        // ---- implementation --------------------------------------------------------
        let got = reader.next_record_bytes(empty, StreamReader::chunk_judge(max_size, limit), Some(3));
        match got {
            Err(_) => assert!(false, "no I/O error is injected"),
            Ok(None) => {
                assert!(expect.is_none());
                done = true;
            }
            Ok(Some((iov, range))) => {
                assert!(expect.is_some());
                let (s, e, plain) = expect.unwrap();
                let n = plain.len;
                assert_eq!(range.start, s as u64);
                assert_eq!(range.end, e as u64);
                assert_eq!(iov.total_size(), n);
                let j: usize = kani::any();
                if j < n {
                    let sl = match iov.iovs() {
                        Ok(sl) => sl,
                        Err(_) => {
                            assert!(false, "records have no pending placeholder");
                            return;
                        }
                    };
                    assert!(flat(sl, j) == Some(plain.b[j]));
                }
                kani::cover!(s > 0 && n > 0, "record after a skipped prefix or delimiter");
            }
        }
    }
    kani::cover!(st.pumps >= 4, "several chunks pumped");
    std::mem::forget(reader);
    if witness {
        assert!(false, "reachability witness: harness end reached");
    }
}

#[kani::proof]
#[kani::unwind(9)]
#[kani::stub(hcobs::StreamChunker::pump, stub_pump)]
fn c06_records_s6() {
    reader_records(1000, false)
}

#[kani::proof]
#[kani::unwind(9)]
#[kani::stub(hcobs::StreamChunker::pump, stub_pump)]
fn c06_records_s6_max2() {
    reader_records(2, false)
}

#[kani::proof]
#[kani::unwind(9)]
#[kani::stub(hcobs::StreamChunker::pump, stub_pump)]
fn c06_records_s6_witness() {
    reader_records(1000, true)
}
