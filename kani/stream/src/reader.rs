//! Nondeterministic reader stub: delivers a byte stream through a symbolic
//! schedule of short reads and interrupted calls.
use std::io::ErrorKind;
use std::io::Read;

/// Number of scheduled (symbolic) calls; later calls deliver everything asked.
pub const SCHED: usize = 2;

pub struct SchedReader<'a> {
    pub data: &'a [u8],
    pub pos: usize,
    pub want: [usize; SCHED],
    pub eintr: [bool; SCHED],
    pub calls: usize,
    pub eof_reported: bool,
    pub max_asked: usize,
}

impl<'a> SchedReader<'a> {
    /// Arbitrary schedule: each of the first SCHED calls is either an
    /// interrupted call (at most one in total) or a short read of 1..=3 bytes.
    pub fn any(data: &'a [u8]) -> Self {
        Self::any_n(data, SCHED)
    }

    /// Only the first `sched` calls are symbolic (short read or interrupted); later calls deliver fully.
    pub fn any_n(data: &'a [u8], sched: usize) -> Self {
        let mut want: [usize; SCHED] = kani::any();
        let mut eintr: [bool; SCHED] = kani::any();
        let mut n = 0;
        let mut i = 0;
        while i < SCHED {
            if i >= sched {
                want[i] = usize::MAX;
                eintr[i] = false;
            }
            kani::assume(want[i] >= 1 && (want[i] <= 3 || i >= sched));
            if eintr[i] {
                n += 1;
            }
            i += 1;
        }
        kani::assume(n <= 1);
        SchedReader { data, pos: 0, want, eintr, calls: 0, eof_reported: false, max_asked: 0 }
    }

    /// A reader that always delivers everything asked.
    pub fn full(data: &'a [u8]) -> Self {
        SchedReader { data, pos: 0, want: [usize::MAX; SCHED], eintr: [false; SCHED], calls: 0, eof_reported: false, max_asked: 0 }
    }
}

impl Read for SchedReader<'_> {
    fn read(&mut self, dst: &mut [u8]) -> std::io::Result<usize> {
        let idx = self.calls;
        self.calls += 1;
        if dst.len() > self.max_asked {
            self.max_asked = dst.len();
        }
        if idx < SCHED && self.eintr[idx] {
            return Err(ErrorKind::Interrupted.into());
        }
        let left = self.data.len() - self.pos;
        let mut n = if dst.len() < left { dst.len() } else { left };
        if idx < SCHED && self.want[idx] < n {
            n = self.want[idx];
        }
        // unrolled copy (n <= 8): no symbolic-size memcpy on the harness side
        let mut i = 0;
        while i < 8 {
            if i < n {
                dst[i] = self.data[self.pos + i];
            }
            i += 1;
        }
        assert!(n <= 8);
        self.pos += n;
        if n == 0 && !dst.is_empty() {
            self.eof_reported = true;
        }
        Ok(n)
    }
}
