//! Kani harnesses for StreamChunker (C08) and StreamReader (C06).
#![allow(clippy::all)]

#[cfg(kani)]
mod reader;
#[cfg(kani)]
mod refcodec;
#[cfg(kani)]
mod c08;
#[cfg(kani)]
mod c06;
