//! C12: MessageView is total on untrusted bytes and its accessors agree.
//!
//! `buf` is an arbitrary byte string of symbolic length <= B.  The reference
//! acceptance predicate and the reference value boundaries are computed
//! directly from the bytes (independently of the implementation).  The pair
//! count N is the full 32-bit header word, so "N larger than the buffer" and
//! "N near 2^32" are inside the quantification.
use rough_tlv::MessageView;
use rough_tlv::Tag;
use std::borrow::Cow;

fn word(buf: &[u8], at: usize) -> u32 {
    u32::from_le_bytes([buf[at], buf[at + 1], buf[at + 2], buf[at + 3]])
}

macro_rules! c12_body {
    ($fname:ident, $b:expr) => {
        fn $fname(witness: bool) {
            const B: usize = $b;
            const MAXN: usize = B / 8;
            let buf: [u8; B] = kani::any();
            let len: usize = kani::any();
            kani::assume(len <= B);
            let data = &buf[..len];

            // ---- reference acceptance predicate --------------------------------
            let mut accept = len >= 4;
            let n64: u64 = if len >= 4 { word(&buf, 0) as u64 } else { 0 };
            if accept && 8 * n64 > len as u64 {
                accept = false;
            }
            let n = if accept { n64 as usize } else { 0 };
            // offsets: n-1 words at 4 + 4i; tags: n words at 4n + 4i
            let mut offs = [0u32; MAXN + 1];
            let mut tags = [0u32; MAXN + 1];
            if accept {
                let mut i = 0;
                while i < MAXN {
                    if i + 1 < n {
                        offs[i] = word(&buf, 4 + 4 * i);
                    }
                    if i < n {
                        tags[i] = word(&buf, 4 * n + 4 * i);
                    }
                    i += 1;
                }
                let mut i = 0;
                while i + 1 < MAXN {
                    if i + 2 < n && offs[i] > offs[i + 1] {
                        accept = false;
                    }
                    if i + 1 < n && tags[i] > tags[i + 1] {
                        accept = false;
                    }
                    i += 1;
                }
                if n >= 2 && 8 * (n as u64) + (offs[n - 2] as u64) > len as u64 {
                    accept = false;
                }
            }

            let view = MessageView::new(Cow::Borrowed(data));
            assert_eq!(view.is_ok(), accept);
            kani::cover!(accept && n == 0 && len > 4, "accepted empty message with trailing bytes");
            kani::cover!(accept && n == MAXN, "accepted message with the maximal pair count");
            kani::cover!(!accept && len >= 4 && n64 > 0x8000_0000, "rejected: pair count near 2^32");
            kani::cover!(accept && n >= 2 && tags[0] == tags[1], "accepted message with a repeated tag");
            kani::cover!(accept && n >= 2 && offs[0] == 0, "accepted message with an empty first value");

            if let Ok(view) = view {
                let header = 8 * n;
                assert_eq!(view.len(), n);
                assert_eq!(view.is_empty(), n == 0);
                assert_eq!(view.tags().len(), n);

                // ---- indexed access at a symbolic index -----------------------
                let i: usize = kani::any();
                let got_v = view.get_value(i);
                let got = view.get(i);
                assert_eq!(got_v.is_some(), i < n);
                assert_eq!(got.is_some(), i < n);
                if i < n {
                    let start = header + if i == 0 { 0 } else { offs[i - 1] as usize };
                    let end = if i + 1 == n { len } else { header + offs[i] as usize };
                    let v = got_v.unwrap();
                    // exactly buf[start..end]: same address, same length
                    assert!(start <= end && end <= len);
                    assert!(v.as_ptr() == data.as_ptr().wrapping_add(start));
                    assert_eq!(v.len(), end - start);
                    let (t, v2) = got.unwrap();
                    assert_eq!(t.value(), tags[i]);
                    assert!(v2.as_ptr() == v.as_ptr() && v2.len() == v.len());
                    assert_eq!(view.tags()[i].value(), tags[i]);
                }

                // ---- iteration agrees with indexing ---------------------------
                {
                    let mut it = view.iter();
                    let mut k = 0;
                    while k < MAXN + 1 {
                        let a = it.next();
                        let b = view.get(k);
                        match (a, b) {
                            (Some((ta, va)), Some((tb, vb))) => {
                                assert!(k < n);
                                assert_eq!(ta.value(), tb.value());
                                assert!(va.as_ptr() == vb.as_ptr() && va.len() == vb.len());
                            }
                            (None, None) => assert!(k >= n),
                            _ => assert!(false, "iter() and get() disagree on the number of pairs"),
                        }
                        k += 1;
                    }
                }

                // ---- tag lookup ----------------------------------------------
                let t: u32 = kani::any();
                let found = view.find(Tag::new_from_u32(t));
                let found_idx = view.find_tag(t);
                let mut present = false;
                let mut matches_some = false;
                let mut k = 0;
                while k < MAXN {
                    if k < n && tags[k] == t {
                        present = true;
                        if let Some(v) = found {
                            let w = view.get_value(k).unwrap();
                            if v.as_ptr() == w.as_ptr() && v.len() == w.len() {
                                matches_some = true;
                            }
                        }
                    }
                    k += 1;
                }
                assert_eq!(found.is_some(), present);
                assert_eq!(found_idx.is_some(), present);
                if found.is_some() {
                    assert!(matches_some);
                }
                if let Some(j) = found_idx {
                    assert!(j < n && tags[j] == t);
                }
                assert!(view.tags_match_exactly(view.tags().iter().copied()));
                kani::cover!(present && n >= 2, "tag lookup hits in a multi-pair message");
                kani::cover!(i >= n && n == 0 && i == 0, "index 0 of an empty message");
                kani::cover!(i < n && i == n - 1 && n >= 2, "last (implicitly sized) value");
            }
            if witness {
                assert!(false, "reachability witness: harness end reached");
            }
        }
    };
}

c12_body!(view24, 24);
c12_body!(view40, 40);

#[kani::proof]
#[kani::unwind(5)]
fn c12_view24() {
    view24(false)
}

#[kani::proof]
#[kani::unwind(5)]
fn c12_view24_witness() {
    view24(true)
}

#[kani::proof]
#[kani::unwind(7)]
fn c12_view40() {
    view40(false)
}
