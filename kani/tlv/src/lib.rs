//! Kani harnesses for rough_tlv (properties C11 and C12).
#![allow(clippy::all)]

#[cfg(kani)]
mod c11;
#[cfg(kani)]
mod c12;
