//! C11: Rough TLV round trip and layout.
//!
//! (a) layout + round trip: N concrete per harness (0..3), tags arbitrary u32
//!     (ties included), value lengths symbolic in 0..=2, all three
//!     constructors; sink = a harness-defined `ZeroCopySink` writing into an
//!     array.  Oracle: the Roughtime layout computed directly (count, N-1
//!     running sums, tags stably sorted by value, values concatenated).
//! (b) rejection set: a length-only value type whose `rough_tlv_len()` is an
//!     arbitrary usize: `Err` exactly when a length or the total exceeds
//!     i32::MAX (total computed in u128), `new_from_sorted` additionally
//!     exactly when tags decrease somewhere.
use owning_iovec::ZeroCopySink;
use rough_tlv::MessageView;
use rough_tlv::MessageWrapper;
use rough_tlv::Tag;
use rough_tlv::ToRoughTLV;
use std::borrow::Cow;

const CAP: usize = 48;

struct ArraySink {
    buf: [u8; CAP],
    len: usize,
    borrowed: usize,
}

impl ArraySink {
    fn new() -> Self {
        ArraySink { buf: [0u8; CAP], len: 0, borrowed: 0 }
    }

    fn put(&mut self, bytes: &[u8]) {
        assert!(self.len + bytes.len() <= CAP);
        // values are at most 4 bytes here: unrolled, no symbolic-size memcpy
        let n = bytes.len();
        assert!(n <= 4);
        if n > 0 {
            self.buf[self.len] = bytes[0];
        }
        if n > 1 {
            self.buf[self.len + 1] = bytes[1];
        }
        if n > 2 {
            self.buf[self.len + 2] = bytes[2];
        }
        if n > 3 {
            self.buf[self.len + 3] = bytes[3];
        }
        self.len += n;
    }
}

impl<'a> ZeroCopySink<'a> for ArraySink {
    fn append_copy(&mut self, bytes: &[u8]) {
        self.put(bytes)
    }

    fn append_borrow(&mut self, bytes: &'a [u8]) {
        self.borrowed += 1;
        self.put(bytes)
    }
}

fn put_word(dst: &mut [u8; CAP], at: usize, w: u32) {
    let b = w.to_le_bytes();
    dst[at] = b[0];
    dst[at + 1] = b[1];
    dst[at + 2] = b[2];
    dst[at + 3] = b[3];
}

/// Stable order of up to 3 tags (indices of the original positions).
fn stable_order<const N: usize>(tags: &[u32; N]) -> [usize; N] {
    let mut idx = [0usize; N];
    let mut i = 0;
    while i < N {
        idx[i] = i;
        i += 1;
    }
    // insertion sort, stable
    let mut i = 1;
    while i < N {
        let mut j = i;
        while j > 0 && tags[idx[j - 1]] > tags[idx[j]] {
            let t = idx[j - 1];
            idx[j - 1] = idx[j];
            idx[j] = t;
            j -= 1;
        }
        i += 1;
    }
    idx
}

/// Which constructor: 0 = new (Vec), 1 = new_from_slice, 2 = new_from_sorted.
fn layout<const N: usize>(ctor: u8, witness: bool) {
    let tags: [u32; N] = kani::any();
    let vals: [[u8; 2]; N] = kani::any();
    let lens: [usize; N] = kani::any();
    let mut i = 0;
    while i < N {
        kani::assume(lens[i] <= 2);
        i += 1;
    }
    let order = stable_order(&tags);
    let mut sorted_input = true;
    let mut i = 0;
    while i + 1 < N {
        if tags[i] > tags[i + 1] {
            sorted_input = false;
        }
        i += 1;
    }

    // expected bytes
    let mut exp = [0u8; CAP];
    let mut explen = 0usize;
    put_word(&mut exp, 0, N as u32);
    explen += 4;
    let mut acc = 0u32;
    let mut i = 0;
    while i < N {
        if i > 0 {
            put_word(&mut exp, explen, acc);
            explen += 4;
        }
        acc += lens[order[i]] as u32;
        i += 1;
    }
    let mut i = 0;
    while i < N {
        put_word(&mut exp, explen, tags[order[i]]);
        explen += 4;
        i += 1;
    }
    let mut i = 0;
    while i < N {
        let o = order[i];
        if lens[o] > 0 {
            exp[explen] = vals[o][0];
        }
        if lens[o] > 1 {
            exp[explen + 1] = vals[o][1];
        }
        explen += lens[o];
        i += 1;
    }

    let mut entries: [(Tag, &[u8]); N] = [(Tag::new_from_u32(0), &[][..]); N];
    let mut i = 0;
    while i < N {
        entries[i] = (Tag::new_from_u32(tags[i]), &vals[i][..lens[i]]);
        i += 1;
    }

    let mut sink = ArraySink::new();
    let reported_len;
    match ctor {
        0 => {
            let mut v = Vec::with_capacity(N + 1);
            let mut i = 0;
            while i < N {
                v.push(entries[i]);
                i += 1;
            }
            let w = MessageWrapper::<&[u8]>::new(v).expect("within limits");
            reported_len = w.rough_tlv_len();
            w.to_rough_tlv(&mut sink);
        }
        1 => {
            let w = MessageWrapper::<&[u8]>::new_from_slice(&mut entries).expect("within limits");
            reported_len = w.rough_tlv_len();
            w.to_rough_tlv(&mut sink);
        }
        _ => {
            let w = MessageWrapper::<&[u8]>::new_from_sorted(&entries);
            assert_eq!(w.is_ok(), sorted_input);
            match w {
                Ok(w) => {
                    reported_len = w.rough_tlv_len();
                    w.to_rough_tlv(&mut sink);
                }
                Err(_) => return,
            }
        }
    }

    assert_eq!(reported_len, explen);
    assert_eq!(sink.len, explen);
    let j: usize = kani::any();
    if j < explen {
        assert_eq!(sink.buf[j], exp[j]);
    }

    // The view accepts the bytes and returns the same pairs in the same order.
    let view = MessageView::new(Cow::Borrowed(&sink.buf[..sink.len]));
    assert!(view.is_ok());
    let view = view.unwrap();
    assert_eq!(view.len(), N);
    {
        let mut it = view.iter();
        let mut k = 0;
        while k < N {
            let o = order[k];
            let (t, v) = it.next().expect("N pairs");
            assert_eq!(t.value(), tags[o]);
            assert_eq!(v.len(), lens[o]);
            if lens[o] > 0 {
                assert_eq!(v[0], vals[o][0]);
            }
            if lens[o] > 1 {
                assert_eq!(v[1], vals[o][1]);
            }
            let (t2, v2) = view.get(k).expect("index < N");
            assert_eq!(t2.value(), t.value());
            assert!(v2.as_ptr() == v.as_ptr() && v2.len() == v.len());
            k += 1;
        }
        assert!(it.next().is_none());
        assert!(view.get(N).is_none());
    }
    if N > 0 {
        // tag lookup returns a value stored under exactly that tag
        let q: usize = kani::any();
        kani::assume(q < N);
        let found = view.find(Tag::new_from_u32(tags[q])).expect("present tag");
        let mut ok = false;
        let mut k = 0;
        while k < N {
            let o = order[k];
            let v = view.get_value(k).unwrap();
            if tags[o] == tags[q] && v.as_ptr() == found.as_ptr() && v.len() == found.len() {
                ok = true;
            }
            k += 1;
        }
        assert!(ok);
    }

    if N >= 2 {
        kani::cover!(tags[0] == tags[1] && lens[0] != lens[1], "repeated tag: ties keep insertion order");
        kani::cover!(tags[0] > tags[1], "unsorted input");
        kani::cover!(lens[order[0]] == 0, "empty first value (offset 0 repeated)");
    }
    if witness {
        assert!(false, "reachability witness: harness end reached");
    }
}

macro_rules! layout_proofs {
    ($($name:ident = ($n:expr, $ctor:expr, $w:expr);)*) => {
        $(
            #[kani::proof]
            #[kani::unwind(6)]
            fn $name() {
                layout::<$n>($ctor, $w)
            }
        )*
    };
}

layout_proofs! {
    c11_layout_n0_new = (0, 0, false);
    c11_layout_n1_new = (1, 0, false);
    c11_layout_n2_new = (2, 0, false);
    c11_layout_n3_new = (3, 0, false);
    c11_layout_n2_slice = (2, 1, false);
    c11_layout_n3_slice = (3, 1, false);
    c11_layout_n2_sorted = (2, 2, false);
    c11_layout_n3_sorted = (3, 2, false);
    c11_layout_n2_slice_witness = (2, 1, true);
}

// ---------------------------------------------------------------------------
// (b) rejection set

#[derive(Clone, Copy)]
struct LenOnly(usize);

impl<'a> ToRoughTLV<'a> for LenOnly {
    fn to_rough_tlv<'dst, Sink>(&self, _sink: &mut Sink)
    where
        'a: 'dst,
        Sink: ZeroCopySink<'dst> + ?Sized,
    {
    }

    fn rough_tlv_len(&self) -> usize {
        self.0
    }
}

fn reject<const N: usize>(ctor: u8) {
    let tags: [u32; N] = kani::any();
    let lens: [usize; N] = kani::any();
    let mut too_large = false;
    let mut total: u128 = 4 + 4 * (if N > 0 { N as u128 - 1 } else { 0 }) + 4 * (N as u128);
    let mut sorted_input = true;
    let mut i = 0;
    while i < N {
        if lens[i] > i32::MAX as usize {
            too_large = true;
        }
        total += lens[i] as u128;
        if i + 1 < N && tags[i] > tags[i + 1] {
            sorted_input = false;
        }
        i += 1;
    }
    let expect_err = too_large || total > i32::MAX as u128;

    let mut entries: [(Tag, LenOnly); N] = [(Tag::new_from_u32(0), LenOnly(0)); N];
    let mut i = 0;
    while i < N {
        entries[i] = (Tag::new_from_u32(tags[i]), LenOnly(lens[i]));
        i += 1;
    }
    let got_len;
    match ctor {
        0 => {
            let mut v = Vec::with_capacity(N + 1);
            let mut i = 0;
            while i < N {
                v.push(entries[i]);
                i += 1;
            }
            let w = MessageWrapper::new(v);
            assert_eq!(w.is_err(), expect_err);
            got_len = w.ok().map(|w| w.rough_tlv_len());
        }
        1 => {
            let w = MessageWrapper::new_from_slice(&mut entries);
            assert_eq!(w.is_err(), expect_err);
            got_len = w.ok().map(|w| w.rough_tlv_len());
        }
        _ => {
            let w = MessageWrapper::new_from_sorted(&entries);
            assert_eq!(w.is_err(), expect_err || !sorted_input);
            got_len = w.ok().map(|w| w.rough_tlv_len());
        }
    }
    if let Some(l) = got_len {
        assert_eq!(l as u128, total);
    }
    kani::cover!(!too_large && total == i32::MAX as u128, "total exactly i32::MAX is accepted");
    kani::cover!(!too_large && total == i32::MAX as u128 + 1, "total one above i32::MAX is rejected");
    kani::cover!(too_large && total < (1u128 << 40), "a single value above i32::MAX");
    if N >= 2 {
        kani::cover!(lens[0] > usize::MAX / 2 && lens[1] > usize::MAX / 2, "sum overflows usize");
    }
}

macro_rules! reject_proofs {
    ($($name:ident = ($n:expr, $ctor:expr);)*) => {
        $(
            #[kani::proof]
            #[kani::unwind(6)]
            fn $name() {
                reject::<$n>($ctor)
            }
        )*
    };
}

reject_proofs! {
    c11_reject_n1_new = (1, 0);
    c11_reject_n2_new = (2, 0);
    c11_reject_n3_new = (3, 0);
    c11_reject_n3_slice = (3, 1);
    c11_reject_n2_sorted = (2, 2);
    c11_reject_n3_sorted = (3, 2);
}
