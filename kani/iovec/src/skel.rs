//! Operation skeletons (see lib.rs).  Arena chunks are 4 bytes (hook H2) and
//! the copy thresholds are 1 / 3, so that 1..3-byte pushes cross every
//! decision boundary: always-copy, opportunistic copy into the open chunk,
//! borrow, chunk exhaustion and regrowth, in-place merge of adjacent copies.
use crate::shadow::*;
use owning_iovec::ByteArena;
use owning_iovec::OwningIovec;
use std::io::IoSlice;
use std::io::Read;
use std::num::NonZeroUsize;

/// K1: borrowed slice, placeholder, copy that merges into the placeholder's
/// slice, consumption attempts before and after the backfill.
#[kani::proof]
#[kani::unwind(7)]
fn k1_patch_merge_consume() {
    let a: [u8; 2] = kani::any();
    let c: [u8; 3] = kani::any();
    let v: [u8; 1] = kani::any();
    let mut sh = Shadow::new();
    let mut iov = OwningIovec::new();
    push_borrowed(&mut iov, &mut sh, &a);
    let r = register(&mut iov, &mut sh, 0, 1);
    push_copy(&mut iov, &mut sh, &c);
    let k: usize = kani::any();
    consume(&mut iov, &mut sh, k);
    observe(&iov, &sh);
    backfill(&mut iov, &mut sh, 0, r, &v);
    observe(&iov, &sh);
    let k2: usize = kani::any();
    consume(&mut iov, &mut sh, k2);
    observe(&iov, &sh);
    kani::cover!(sh.consumed == 6, "everything consumed after the backfill");
    kani::cover!(k > 1 && sh.consumed == 2, "over-asking consume stopped at the placeholder");
    std::mem::forget(iov);
}

/// K2: copies that merge and fill a 4-byte chunk, chunk regrowth, partial byte
/// consumption inside the merged slice, then size-adaptive push.
#[kani::proof]
#[kani::unwind(7)]
fn k2_merge_regrow_advance() {
    let a: [u8; 2] = kani::any();
    let b: [u8; 2] = kani::any();
    let c: [u8; 3] = kani::any();
    let d: [u8; 1] = kani::any();
    let mut sh = Shadow::new();
    let mut iov = OwningIovec::new();
    push_copy(&mut iov, &mut sh, &a);
    push_copy(&mut iov, &mut sh, &b);
    assert_eq!(iov.len(), 1); // merged in place
    push_copy(&mut iov, &mut sh, &c);
    let n: usize = kani::any();
    advance(&mut iov, &mut sh, n);
    observe(&iov, &sh);
    push(&mut iov, &mut sh, &d);
    let k: usize = kani::any();
    consume(&mut iov, &mut sh, k);
    observe(&iov, &sh);
    kani::cover!(n == 3, "partial consumption inside the merged slice");
    kani::cover!(sh.consumed == 8, "drained");
    std::mem::forget(iov);
}

/// K3: anchored push (arena read -> components -> borrowed slice + anchor),
/// cache flush, consumption; the bytes must stay alive until consumed.
#[kani::proof]
#[kani::unwind(7)]
fn k3_anchored_push_flush() {
    let src: [u8; 3] = kani::any();
    let a: [u8; 2] = kani::any();
    let mut sh = Shadow::new();
    let mut iov = OwningIovec::new();
    push_copy(&mut iov, &mut sh, &a);
    let anchored = match iov.arena().read_n(&src[..], 3, NonZeroUsize::new(1).unwrap()) {
        Ok(x) => x,
        Err(_) => {
            assert!(false, "slice readers do not fail");
            return;
        }
    };
    let (_, slice, anchor) = unsafe { anchored.components() };
    assert_eq!(slice.len(), 3);
    iov.push_borrowed(slice);
    iov.push_anchor(anchor);
    sh.append(&src);
    iov.arena().flush_cache();
    observe(&iov, &sh);
    let k: usize = kani::any();
    consume(&mut iov, &mut sh, k);
    observe(&iov, &sh);
    kani::cover!(sh.consumed == 5, "anchored bytes consumed");
    std::mem::forget(iov);
}

/// K4: four placeholders in flight (each in its own slice: a borrowed byte
/// separates the first two), backfilled out of order (a concrete permutation
/// per harness).  Observation after the fill that unblocks the first bytes and
/// at the end.
fn four_placeholders(order: [usize; 4]) {
    let sep: [u8; 1] = kani::any();
    let vals: [[u8; 1]; 4] = kani::any();
    let mut sh = Shadow::new();
    let mut iov = OwningIovec::new();
    let r0 = register(&mut iov, &mut sh, 0, 1);
    push_borrowed(&mut iov, &mut sh, &sep);
    let r1 = register(&mut iov, &mut sh, 1, 1);
    let r2 = register(&mut iov, &mut sh, 2, 1);
    let r3 = register(&mut iov, &mut sh, 3, 1);
    let mut rs = [Some(r0), Some(r1), Some(r2), Some(r3)];
    let mut i = 0;
    while i < 4 {
        let slot = order[i];
        let r = rs[slot].take().unwrap();
        backfill(&mut iov, &mut sh, slot, r, &vals[slot]);
        if i >= 2 {
            observe(&iov, &sh);
        }
        i += 1;
    }
    let k: usize = kani::any();
    consume(&mut iov, &mut sh, k);
    observe(&iov, &sh);
    kani::cover!(sh.consumed == 5, "all five bytes consumed");
    std::mem::forget(iov);
}

#[kani::proof]
#[kani::unwind(7)]
fn k4_fill_order_0132() {
    four_placeholders([0, 1, 3, 2])
}

#[kani::proof]
#[kani::unwind(7)]
fn k4_fill_order_3210() {
    four_placeholders([3, 2, 1, 0])
}

#[kani::proof]
#[kani::unwind(7)]
fn k4_fill_order_1302() {
    four_placeholders([1, 3, 0, 2])
}

/// K5: consume, clear, reuse: sizes and contents restart from the clear.
#[kani::proof]
#[kani::unwind(7)]
fn k5_clear_then_reuse() {
    let a: [u8; 3] = kani::any();
    let b: [u8; 2] = kani::any();
    let c: [u8; 3] = kani::any();
    let mut sh = Shadow::new();
    let mut iov = OwningIovec::new();
    push_copy(&mut iov, &mut sh, &a);
    push_borrowed(&mut iov, &mut sh, &b);
    let n: usize = kani::any();
    consume(&mut iov, &mut sh, n);
    let _pending = register(&mut iov, &mut sh, 0, 1);
    iov.clear();
    sh.clear();
    assert!(iov.is_empty());
    push_copy(&mut iov, &mut sh, &c);
    observe(&iov, &sh);
    let k: usize = kani::any();
    consume(&mut iov, &mut sh, k);
    observe(&iov, &sh);
    kani::cover!(n == 1, "three bytes consumed before the clear");
    std::mem::forget(iov);
}

/// K6: take() moves everything, including the ability to backfill, and leaves
/// an empty, usable iovec behind (C20).
#[kani::proof]
#[kani::unwind(7)]
fn k6_take_with_pending_placeholder() {
    let a: [u8; 2] = kani::any();
    let v: [u8; 1] = kani::any();
    let c: [u8; 2] = kani::any();
    let mut sh = Shadow::new();
    let mut iov = OwningIovec::new();
    push_copy(&mut iov, &mut sh, &a);
    let r = register(&mut iov, &mut sh, 0, 1);
    let mut taken = iov.take();
    // the source is empty and fully usable
    let mut sh2 = Shadow::new();
    assert!(iov.is_empty() && !iov.has_pending_backrefs());
    push_borrowed(&mut iov, &mut sh2, &c);
    observe(&iov, &sh2);
    // the taken value holds the contents and the pending placeholder
    observe(&taken, &sh);
    backfill(&mut taken, &mut sh, 0, r, &v);
    let k: usize = kani::any();
    consume(&mut taken, &mut sh, k);
    observe(&taken, &sh);
    std::mem::forget(iov);
    std::mem::forget(taken);
}

/// K7: clone, then drain and refill the original: the clone is unaffected (C20).
#[kani::proof]
#[kani::unwind(7)]
fn k7_clone_drain_refill_original() {
    let a: [u8; 3] = kani::any();
    let c: [u8; 2] = kani::any();
    let v: [u8; 1] = kani::any();
    let mut sh = Shadow::new();
    let mut iov = OwningIovec::new();
    push_copy(&mut iov, &mut sh, &a);
    let cl = iov.clone();
    let mut shc = Shadow::new();
    shc.append(&a);
    let n: usize = kani::any();
    consume(&mut iov, &mut sh, n);
    push_copy(&mut iov, &mut sh, &c);
    let r = register(&mut iov, &mut sh, 0, 1);
    backfill(&mut iov, &mut sh, 0, r, &v);
    observe(&iov, &sh);
    observe(&cl, &shc);
    kani::cover!(n >= 1, "original fully drained before the refill");
    std::mem::forget(iov);
    std::mem::forget(cl);
}

/// K7b: operate on the clone (push that could extend a shared slice, consume);
/// the original is unaffected.
#[kani::proof]
#[kani::unwind(7)]
fn k7b_clone_then_mutate_clone() {
    let a: [u8; 2] = kani::any();
    let c: [u8; 2] = kani::any();
    let d: [u8; 1] = kani::any();
    let mut sh = Shadow::new();
    let mut iov = OwningIovec::new();
    push_copy(&mut iov, &mut sh, &a);
    let mut cl = iov.clone();
    let mut shc = Shadow::new();
    shc.append(&a);
    push_borrowed(&mut cl, &mut shc, &c);
    // the original's cache still abuts the shared slice: this copy merges in place
    push_copy(&mut iov, &mut sh, &d);
    observe(&iov, &sh);
    observe(&cl, &shc);
    let k: usize = kani::any();
    consume(&mut cl, &mut shc, k);
    observe(&cl, &shc);
    observe(&iov, &sh);
    std::mem::forget(iov);
    std::mem::forget(cl);
}

/// K8: over-asking consumers with a placeholder pending in the middle.
#[kani::proof]
#[kani::unwind(7)]
fn k8_overasking_consumers_with_pending() {
    let a: [u8; 2] = kani::any();
    let b: [u8; 2] = kani::any();
    let v: [u8; 2] = kani::any();
    let mut sh = Shadow::new();
    let mut iov = OwningIovec::new();
    push_borrowed(&mut iov, &mut sh, &a);
    let r = register(&mut iov, &mut sh, 0, 2);
    push_borrowed(&mut iov, &mut sh, &b);
    let k: usize = kani::any();
    consume(&mut iov, &mut sh, k);
    observe(&iov, &sh);
    assert!(sh.consumed <= 2);
    backfill(&mut iov, &mut sh, 0, r, &v);
    let k2: usize = kani::any();
    consume(&mut iov, &mut sh, k2);
    observe(&iov, &sh);
    kani::cover!(sh.consumed == 6, "drained after the backfill");
    std::mem::forget(iov);
}

/// K8b: placeholder merged into a partially consumable arena slice, byte
/// drain just before it, then more payload and the backfill (C09-B shape).
#[kani::proof]
#[kani::unwind(7)]
fn k8b_byte_drain_before_merged_placeholder() {
    let a: [u8; 2] = kani::any();
    let c: [u8; 1] = kani::any();
    let v: [u8; 1] = kani::any();
    let mut sh = Shadow::new();
    let mut iov = OwningIovec::new();
    push_copy(&mut iov, &mut sh, &a);
    let r = register(&mut iov, &mut sh, 0, 1); // merges into the slice holding `a`
    let n: usize = kani::any();
    advance(&mut iov, &mut sh, n);
    observe(&iov, &sh);
    push_copy(&mut iov, &mut sh, &c);
    backfill(&mut iov, &mut sh, 0, r, &v);
    observe(&iov, &sh);
    std::mem::forget(iov);
}

/// K9: Read::read into a buffer of symbolic length, extend, pop_front.
#[kani::proof]
#[kani::unwind(7)]
fn k9_read_extend_pop() {
    let a: [u8; 2] = kani::any();
    let b: [u8; 3] = kani::any();
    let c: [u8; 1] = kani::any();
    let mut sh = Shadow::new();
    let mut iov = OwningIovec::new();
    iov.extend([IoSlice::new(&a), IoSlice::new(&[]), IoSlice::new(&b)]);
    sh.append(&a);
    sh.append(&b);
    push_copy(&mut iov, &mut sh, &c);
    let mut dst = [0u8; 4];
    let want: usize = kani::any();
    kani::assume(want <= 4);
    let got = match iov.consumer().read(&mut dst[..want]) {
        Ok(n) => n,
        Err(_) => {
            assert!(false, "Read on a consumer never fails");
            return;
        }
    };
    assert_eq!(got, want); // six bytes are buffered
    let j: usize = kani::any();
    if j < got {
        assert_eq!(dst[j], sh.b[j]);
    }
    sh.consumed += got;
    observe(&iov, &sh);
    let first = iov.stable_prefix()[0].len();
    iov.consumer().pop_front();
    sh.consumed += first;
    observe(&iov, &sh);
    std::mem::forget(iov);
}

/// C10: everything dropped for real, in a symbolic order: the process-wide
/// live chunk / byte counters return to their starting values.
#[kani::proof]
#[kani::unwind(7)]
fn k11_drop_orders_restore_counters() {
    let chunks0 = ByteArena::num_live_chunks();
    let bytes0 = ByteArena::num_live_bytes();
    {
        let a: [u8; 3] = kani::any();
        let b: [u8; 3] = kani::any();
        let mut sh = Shadow::new();
        let mut iov = OwningIovec::new();
        push_copy(&mut iov, &mut sh, &a);
        push_copy(&mut iov, &mut sh, &b); // second 4-byte chunk
        let cl = iov.clone();
        let k: usize = kani::any();
        consume(&mut iov, &mut sh, k);
        observe(&iov, &sh);
        assert!(ByteArena::num_live_chunks() >= chunks0 + 1);
        let taken_arena = iov.consumer().take_arena();
        let order: u8 = kani::any();
        kani::assume(order < 3);
        match order {
            0 => {
                drop(iov);
                drop(cl);
                drop(taken_arena);
            }
            1 => {
                drop(cl);
                drop(taken_arena);
                drop(iov);
            }
            _ => {
                drop(taken_arena);
                drop(iov);
                drop(cl);
            }
        }
    }
    assert_eq!(ByteArena::num_live_chunks(), chunks0);
    assert_eq!(ByteArena::num_live_bytes(), bytes0);
}

/// C10 (clear keeps nothing alive): after clear + cache flush no chunk stays
/// pinned by stale anchors, and the iovec is consistent for further use.
#[kani::proof]
#[kani::unwind(7)]
fn k12_clear_releases_chunks() {
    let chunks0 = ByteArena::num_live_chunks();
    let a: [u8; 3] = kani::any();
    let c: [u8; 2] = kani::any();
    let mut sh = Shadow::new();
    let mut iov = OwningIovec::new();
    push_copy(&mut iov, &mut sh, &a);
    iov.clear();
    sh.clear();
    iov.arena().flush_cache();
    assert_eq!(ByteArena::num_live_chunks(), chunks0);
    push_copy(&mut iov, &mut sh, &c);
    observe(&iov, &sh);
    let k: usize = kani::any();
    consume(&mut iov, &mut sh, k);
    observe(&iov, &sh);
    drop(iov);
    assert_eq!(ByteArena::num_live_chunks(), chunks0);
}

/// C05: AnchoredSlice parts keep their chunk alive after the arena is gone.
#[kani::proof]
#[kani::unwind(7)]
fn k13_anchored_slice_outlives_arena() {
    let src: [u8; 4] = kani::any();
    let mut arena = ByteArena::new();
    let whole = match arena.read_n(&src[..], 4, NonZeroUsize::new(1).unwrap()) {
        Ok(x) => x,
        Err(_) => {
            assert!(false, "slice readers do not fail");
            return;
        }
    };
    let mid: usize = kani::any();
    let (mut left, mut right) = whole.split_at(mid);
    let copy = right.clone();
    drop(arena);
    let skipped = right.skip_prefix(1);
    let dropped = left.drop_suffix(1);
    let j: usize = kani::any();
    if j < left.slice().len() {
        assert_eq!(left.slice()[j], src[j]);
    }
    if j < right.slice().len() {
        let base = if mid < 4 { mid } else { 4 };
        assert_eq!(right.slice()[j], src[base + skipped + j]);
    }
    drop(left);
    if j < copy.slice().len() {
        let base = if mid < 4 { mid } else { 4 };
        assert_eq!(copy.slice()[j], src[base + j]);
    }
    let taken = right.take();
    assert!(right.slice().is_empty());
    assert!(dropped <= 1 && skipped <= 1);
    drop(right);
    drop(taken);
    drop(copy);
}


/// K8c: byte-count over-asking with a placeholder pending in a later slice.
#[kani::proof]
#[kani::unwind(7)]
fn k8c_overasking_advance_with_pending() {
    let a: [u8; 2] = kani::any();
    let v: [u8; 1] = kani::any();
    let mut sh = Shadow::new();
    let mut iov = OwningIovec::new();
    push_borrowed(&mut iov, &mut sh, &a);
    let r = register(&mut iov, &mut sh, 0, 1);
    let n: usize = kani::any();
    advance(&mut iov, &mut sh, n);
    observe(&iov, &sh);
    backfill(&mut iov, &mut sh, 0, r, &v);
    observe(&iov, &sh);
    std::mem::forget(iov);
}

/// K5q: consume, clear, reuse (small): sizes restart from the clear.
#[kani::proof]
#[kani::unwind(7)]
fn k5q_clear_resets_accounting() {
    let a: [u8; 3] = kani::any();
    let c: [u8; 2] = kani::any();
    let mut sh = Shadow::new();
    let mut iov = OwningIovec::new();
    push_copy(&mut iov, &mut sh, &a);
    let k: usize = kani::any();
    consume(&mut iov, &mut sh, k);
    iov.clear();
    sh.clear();
    assert!(iov.is_empty());
    assert_eq!(iov.total_size(), 0);
    push_borrowed(&mut iov, &mut sh, &c);
    observe(&iov, &sh);
    kani::cover!(k >= 1, "bytes were consumed before the clear");
    std::mem::forget(iov);
}

/// K6q: take() with a pending placeholder (small).
#[kani::proof]
#[kani::unwind(7)]
fn k6q_take_moves_pending_placeholder() {
    let a: [u8; 2] = kani::any();
    let v: [u8; 1] = kani::any();
    let mut sh = Shadow::new();
    let mut iov = OwningIovec::new();
    push_borrowed(&mut iov, &mut sh, &a);
    let r = register(&mut iov, &mut sh, 0, 1);
    let mut taken = iov.take();
    assert!(iov.is_empty() && !iov.has_pending_backrefs());
    assert!(iov.iovs().is_ok());
    assert_eq!(iov.total_size(), 0);
    observe(&taken, &sh);
    backfill(&mut taken, &mut sh, 0, r, &v);
    observe(&taken, &sh);
    std::mem::forget(iov);
    std::mem::forget(taken);
}

/// K7q: clone, drain the original completely, refill it: the clone still
/// shows the bytes it was cloned with (small).
#[kani::proof]
#[kani::unwind(7)]
fn k7q_clone_survives_drain_and_refill() {
    let a: [u8; 3] = kani::any();
    let c: [u8; 2] = kani::any();
    let mut sh = Shadow::new();
    let mut iov = OwningIovec::new();
    push_copy(&mut iov, &mut sh, &a);
    let cl = iov.clone();
    let mut shc = Shadow::new();
    shc.append(&a);
    consume(&mut iov, &mut sh, 1);
    assert!(iov.is_empty());
    push_copy(&mut iov, &mut sh, &c);
    observe(&cl, &shc);
    observe(&iov, &sh);
    std::mem::forget(iov);
    std::mem::forget(cl);
}

/// K8q: a consumer that asks for more slices than are stable never gets the
/// slice holding a pending placeholder (small).
#[kani::proof]
#[kani::unwind(7)]
fn k8q_consume_clamped_to_stable_prefix() {
    let a: [u8; 2] = kani::any();
    let b: [u8; 1] = kani::any();
    let v: [u8; 1] = kani::any();
    let mut sh = Shadow::new();
    let mut iov = OwningIovec::new();
    push_borrowed(&mut iov, &mut sh, &a);
    let r = register(&mut iov, &mut sh, 0, 1);
    push_borrowed(&mut iov, &mut sh, &b);
    let k: usize = kani::any();
    consume(&mut iov, &mut sh, k);
    observe(&iov, &sh);
    assert!(sh.consumed <= 2);
    backfill(&mut iov, &mut sh, 0, r, &v);
    observe(&iov, &sh);
    kani::cover!(k > 1 && sh.consumed == 2, "over-asking consume stopped at the placeholder");
    std::mem::forget(iov);
}

/// K11q: real drops: after consuming a symbolic number of slices and dropping
/// the iovec, the live chunk / byte counters are back where they started.
#[kani::proof]
#[kani::unwind(7)]
fn k11q_drop_restores_counters() {
    let chunks0 = ByteArena::num_live_chunks();
    let bytes0 = ByteArena::num_live_bytes();
    {
        let a: [u8; 3] = kani::any();
        let b: [u8; 3] = kani::any();
        let mut sh = Shadow::new();
        let mut iov = OwningIovec::new();
        push_copy(&mut iov, &mut sh, &a);
        push_copy(&mut iov, &mut sh, &b); // second 4-byte chunk
        assert!(ByteArena::num_live_chunks() == chunks0 + 2);
        let k: usize = kani::any();
        consume(&mut iov, &mut sh, k);
        if k >= 1 {
            // the first chunk is only kept alive by the slice that was just consumed
            assert!(ByteArena::num_live_chunks() == chunks0 + 1);
        }
        drop(iov);
    }
    assert_eq!(ByteArena::num_live_chunks(), chunks0);
    assert_eq!(ByteArena::num_live_bytes(), bytes0);
}
