//! Kani harnesses for OwningIovec (C03, C04, C05, C10, C20).
//!
//! Every harness is an operation SKELETON: the operation kinds and the slice
//! lengths are concrete (symbolic lengths or kinds exhausted 24 GB in the
//! probes), while byte contents, consume counts, byte counts, read-buffer
//! lengths and the probe position are symbolic.  After every operation the
//! whole read side is compared with a shadow buffer at a symbolic position,
//! which also makes CBMC's pointer checks cover every exposed byte (C05).
#![allow(clippy::all)]

#[cfg(kani)]
mod shadow;
#[cfg(kani)]
mod skel;
