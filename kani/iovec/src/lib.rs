//! Kani harnesses for OwningIovec (C03, C04, C05, C10, C20).
//!
//! Every harness is an operation SKELETON: the operation kinds and the slice
//! lengths are concrete (symbolic lengths or kinds exhausted 24 GB in the
//! probes), while byte contents, consume counts, byte counts, read-buffer
//! lengths and the probe position are symbolic.  After every operation the
//! whole read side is compared with a shadow buffer at a symbolic position,
//! which also makes CBMC's pointer checks cover every exposed byte (C05).
#![allow(clippy::all)]

#[cfg(kani)]
mod shadow;
#[cfg(kani)]
mod skel;

/// Typed replacement for `core::mem::swap` (Kani stubbing).  std swaps large
/// values as untyped integer chunks (`swap_nonoverlapping`), through which
/// CBMC loses the provenance of the pointers stored in the value (every later
/// dereference is reported as "pointer invalid"); a typed read/write pair is
/// the same operation and keeps pointers intact.  Part of the trusted base.
#[cfg(kani)]
pub fn swap_stub<T>(a: &mut T, b: &mut T) {
    unsafe {
        let t = std::ptr::read(a);
        std::ptr::write(a, std::ptr::read(b));
        std::ptr::write(b, t);
    }
}
