use owning_iovec::Backref;
use owning_iovec::OwningIovec;
use std::io::IoSlice;

pub const MAXS: usize = 5;
pub const CAP: usize = 24;

pub fn byte_at(slices: &[IoSlice<'_>], j: usize) -> Option<u8> {
    let mut off = 0usize;
    let mut i = 0;
    while i < MAXS {
        if i < slices.len() {
            let s: &[u8] = &slices[i];
            if j < off + s.len() {
                return Some(s[j - off]);
            }
            off += s.len();
        }
        i += 1;
    }
    None
}

pub fn total(slices: &[IoSlice<'_>]) -> usize {
    let mut off = 0usize;
    let mut i = 0;
    while i < MAXS {
        if i < slices.len() {
            off += slices[i].len();
        }
        i += 1;
    }
    off
}

pub fn first_n_bytes(slices: &[IoSlice<'_>], n: usize) -> usize {
    let mut off = 0usize;
    let mut i = 0;
    while i < MAXS {
        if i < slices.len() && i < n {
            off += slices[i].len();
        }
        i += 1;
    }
    off
}

pub fn no_empty_slice(slices: &[IoSlice<'_>]) -> bool {
    let mut ok = true;
    let mut i = 0;
    while i < MAXS {
        if i < slices.len() && slices[i].len() == 0 {
            ok = false;
        }
        i += 1;
    }
    ok
}

/// Shadow of the pipe: every byte appended since the last clear, how many of
/// them the consumer has taken, and where the pending placeholders are.
pub struct Shadow {
    pub b: [u8; CAP],
    pub appended: usize,
    pub consumed: usize,
    pub pending: [Option<(usize, usize)>; 4], // (offset, len) of placeholders not yet backfilled
}

impl Shadow {
    pub fn new() -> Shadow {
        Shadow { b: [0u8; CAP], appended: 0, consumed: 0, pending: [None; 4] }
    }

    pub fn append(&mut self, bytes: &[u8]) {
        let mut i = 0;
        while i < 4 {
            if i < bytes.len() {
                self.b[self.appended + i] = bytes[i];
            }
            i += 1;
        }
        assert!(bytes.len() <= 4);
        self.appended += bytes.len();
    }

    pub fn earliest_pending(&self) -> Option<usize> {
        let mut best: Option<usize> = None;
        let mut i = 0;
        while i < 4 {
            if let Some((off, _)) = self.pending[i] {
                best = match best {
                    Some(b) if b <= off => Some(b),
                    _ => Some(off),
                };
            }
            i += 1;
        }
        best
    }

    pub fn clear(&mut self) {
        self.appended = 0;
        self.consumed = 0;
        self.pending = [None; 4];
    }
}

/// Full read-side observation against the shadow (C03 + C04 + C05).
pub fn observe(iov: &OwningIovec<'_>, sh: &Shadow) {
    let sp = iov.stable_prefix();
    let st = total(sp);
    assert!(no_empty_slice(sp));
    assert!(sp.len() <= MAXS);
    assert!(iov.len() <= MAXS);
    assert_eq!(iov.total_size(), sh.appended - sh.consumed);
    assert_eq!(iov.is_empty(), iov.len() == 0);
    assert!(sp.len() <= iov.len());
    match sh.earliest_pending() {
        None => {
            // nothing pending: everything buffered is consumable, and the accessors say so
            assert_eq!(st, sh.appended - sh.consumed);
            assert!(!iov.has_pending_backrefs());
            assert!(iov.iovs().is_ok());
            assert_eq!(sp.len(), iov.len());
        }
        Some(p) => {
            // never a placeholder byte, nor anything appended after the earliest pending one
            assert!(sh.consumed + st <= p);
            assert!(iov.has_pending_backrefs());
            assert!(iov.iovs().is_err());
        }
    }
    // contents (and, through CBMC's pointer checks, liveness of every exposed byte)
    let j: usize = kani::any();
    if j < st {
        assert!(byte_at(sp, j) == Some(sh.b[sh.consumed + j]));
    }
}

pub fn push_copy(iov: &mut OwningIovec<'_>, sh: &mut Shadow, bytes: &[u8]) {
    iov.push_copy(bytes);
    sh.append(bytes);
}

pub fn push_borrowed<'a>(iov: &mut OwningIovec<'a>, sh: &mut Shadow, bytes: &'a [u8]) {
    iov.push_borrowed(bytes);
    sh.append(bytes);
}

pub fn push<'a>(iov: &mut OwningIovec<'a>, sh: &mut Shadow, bytes: &'a [u8]) {
    iov.push(bytes);
    sh.append(bytes);
}

/// Registers a placeholder of `n` bytes (pattern 0xAA) in slot `slot`.
pub fn register(iov: &mut OwningIovec<'_>, sh: &mut Shadow, slot: usize, n: usize) -> Backref {
    let pat = [0xAAu8; 4];
    let off = sh.appended;
    let r = iov.register_patch(&pat[..n]);
    assert_eq!(r.len(), n);
    sh.append(&pat[..n]);
    sh.pending[slot] = Some((off, n));
    r
}

pub fn backfill(iov: &mut OwningIovec<'_>, sh: &mut Shadow, slot: usize, r: Backref, val: &[u8]) {
    let (off, n) = sh.pending[slot].unwrap();
    assert_eq!(val.len(), n);
    iov.backfill_or_panic(r, val);
    let mut i = 0;
    while i < 4 {
        if i < n {
            sh.b[off + i] = val[i];
        }
        i += 1;
    }
    sh.pending[slot] = None;
}

/// consume(k) with unconstrained k: reports exactly what it removed.
pub fn consume(iov: &mut OwningIovec<'_>, sh: &mut Shadow, k: usize) {
    let nsl = iov.stable_prefix().len();
    let want = if k < nsl { k } else { nsl };
    let bytes = first_n_bytes(iov.stable_prefix(), want);
    let got = iov.consumer().consume(k);
    assert_eq!(got, want);
    sh.consumed += bytes;
}

/// advance_slices(n) with unconstrained n.
pub fn advance(iov: &mut OwningIovec<'_>, sh: &mut Shadow, n: usize) {
    let st = total(iov.stable_prefix());
    let want = if n < st { n } else { st };
    let got = iov.consumer().advance_slices(n);
    assert_eq!(got, want);
    sh.consumed += want;
}
