//! C19: the NFS base time only moves forward, and only on evidence from
//! trusted devices.
//!
//! The file system and the clocks are nondeterministic stubs (Kani
//! stubbing); every stub is part of the claim:
//!   File::metadata          -> Ok(zeroed Metadata) (or an error when FAIL_STAT is set)
//!   MetadataExt::dev/ctime/ctime_nsec -> the harness-chosen symbolic values for the file being touched
//!   File::set_times         -> Ok(())
//!   OpenOptions::open       -> a File over a dummy descriptor
//!   <OwnedFd as Drop>::drop -> no-op (no close(2))
//!   Instant::now / SystemTime::now -> fixed values (only used for rate limiting / atime)
//! The process-wide statics start from their initial values in every harness
//! ("before any path is trusted"); later states are reached by the prefix of
//! calls inside the harness.
use std::os::fd::FromRawFd;
use std::path::PathBuf;
use vouched_time::nfs_voucher;

const VOUCH_PARAMS: raffle::VouchingParameters = raffle::VouchingParameters::parse_or_die(
    "VOUCH-773ec2a0e62c20cd-f9e079b78e895091-fc1da7b1b77c57cb-594b9cce3091464a",
);

pub static mut CUR_DEV: u64 = 0;
pub static mut CUR_CTIME: i64 = 0;
pub static mut CUR_NSEC: i64 = 0;
pub static mut FAIL_STAT: bool = false;
pub static mut STATS: usize = 0;

fn stub_metadata(_f: &std::fs::File) -> std::io::Result<std::fs::Metadata> {
    unsafe {
        STATS += 1;
        if FAIL_STAT {
            return Err(std::io::ErrorKind::PermissionDenied.into());
        }
        Ok(std::mem::zeroed())
    }
}

fn stub_dev(_m: &std::fs::Metadata) -> u64 {
    unsafe { CUR_DEV }
}

fn stub_ctime(_m: &std::fs::Metadata) -> i64 {
    unsafe { CUR_CTIME }
}

fn stub_ctime_nsec(_m: &std::fs::Metadata) -> i64 {
    unsafe { CUR_NSEC }
}

fn stub_set_times(_f: &std::fs::File, _t: std::fs::FileTimes) -> std::io::Result<()> {
    Ok(())
}

fn stub_open<P: AsRef<std::path::Path>>(_o: &std::fs::OpenOptions, _p: P) -> std::io::Result<std::fs::File> {
    Ok(unsafe { std::fs::File::from_raw_fd(3) })
}

fn stub_fd_drop(_fd: &mut std::os::fd::OwnedFd) {}

pub static mut TICK: u64 = 0;

fn stub_instant_now() -> std::time::Instant {
    // a monotonic clock that advances one second per reading (so the module's
    // 100 ms rate limit never suppresses a refresh in these histories)
    unsafe {
        TICK += 1;
        std::mem::zeroed::<std::time::Instant>() + std::time::Duration::from_secs(TICK)
    }
}

fn stub_system_now() -> std::time::SystemTime {
    // "now" is 5000 s after the epoch: later than every change time the harnesses present
    // (1000..1003 s), so the refresh policy considers the base time stale.
    std::time::UNIX_EPOCH + std::time::Duration::from_secs(5_000)
}

fn ms_of(ctime: i64, nsec: i64) -> u64 {
    (ctime as u64).saturating_mul(1000).saturating_add((nsec as u64) / 1_000_000)
}

fn set_file(dev: u64, ctime: i64, nsec: i64) {
    unsafe {
        CUR_DEV = dev;
        CUR_CTIME = ctime;
        CUR_NSEC = nsec;
    }
}

fn current_base() -> (u64, raffle::Voucher) {
    match nfs_voucher::get_base_time_unlocked(time::OffsetDateTime::UNIX_EPOCH) {
        Ok(pair) => pair,
        Err(_) => {
            assert!(false, "get_base_time_unlocked never fails");
            unreachable!()
        }
    }
}

fn any_file_time() -> (i64, i64) {
    // A small symbolic domain: the module computes a voucher (64-bit multiplications) for
    // the file's change time, and fully symbolic operands did not get through the SAT back
    // end in 50 minutes.  Four change times x two sub-second parts keep every ordering
    // between two files (older / equal / newer, also by milliseconds only) reachable.
    let x: u8 = kani::any();
    let y: bool = kani::any();
    let ctime: i64 = 1_000 + (x & 3) as i64;
    let nsec: i64 = if y { 999_000_000 } else { 1_000_000 };
    (ctime, nsec)
}

/// Before any path is trusted: observing any file reports nothing and leaves
/// the base time at its initial value; every returned pair passes the check.
#[kani::proof]
#[kani::unwind(4)]
#[kani::stub(std::fs::File::metadata, stub_metadata)]
#[kani::stub(<std::fs::Metadata as std::os::unix::fs::MetadataExt>::dev, stub_dev)]
#[kani::stub(<std::fs::Metadata as std::os::unix::fs::MetadataExt>::ctime, stub_ctime)]
#[kani::stub(<std::fs::Metadata as std::os::unix::fs::MetadataExt>::ctime_nsec, stub_ctime_nsec)]
#[kani::stub(<std::os::fd::OwnedFd as std::ops::Drop>::drop, stub_fd_drop)]
#[kani::stub(std::time::Instant::now, stub_instant_now)]
#[kani::stub(std::time::SystemTime::now, stub_system_now)]
fn c19_untrusted_before_any_trust() {
    let (b0, _v0) = current_base();
    assert_eq!(b0, 0);
    let dev: u64 = kani::any();
    let (ct, ns) = any_file_time();
    set_file(dev, ct, ns);
    let file = unsafe { std::fs::File::from_raw_fd(3) };
    match nfs_voucher::observe_file_time(&file) {
        Ok((_meta, got)) => assert!(got.is_none()),
        Err(_) => assert!(false, "stat succeeded"),
    }
    let (b1, v1) = current_base();
    assert_eq!(b1, 0);
    assert!(VOUCH_PARAMS.checking_parameters().check(b1, v1));
    std::mem::forget(file);
}

/// add_trusted_path, then observe a file on a symbolic device with a symbolic
/// change time (older or newer than the base).
#[kani::proof]
#[kani::unwind(4)]
#[kani::stub(std::fs::File::metadata, stub_metadata)]
#[kani::stub(<std::fs::Metadata as std::os::unix::fs::MetadataExt>::dev, stub_dev)]
#[kani::stub(<std::fs::Metadata as std::os::unix::fs::MetadataExt>::ctime, stub_ctime)]
#[kani::stub(<std::fs::Metadata as std::os::unix::fs::MetadataExt>::ctime_nsec, stub_ctime_nsec)]
#[kani::stub(std::fs::File::set_times, stub_set_times)]
#[kani::stub(std::fs::OpenOptions::open, stub_open)]
#[kani::stub(<std::os::fd::OwnedFd as std::ops::Drop>::drop, stub_fd_drop)]
#[kani::stub(std::time::Instant::now, stub_instant_now)]
#[kani::stub(std::time::SystemTime::now, stub_system_now)]
fn c19_trust_then_observe() {
    let d1: u64 = kani::any();
    let (ct1, ns1) = any_file_time();
    set_file(d1, ct1, ns1);
    match nfs_voucher::add_trusted_path(PathBuf::new()) {
        Ok(()) => {}
        Err(_) => assert!(false, "registration succeeds when open/stat/touch succeed"),
    }
    let (b1, v1) = current_base();
    // changed only to the change time of the file being registered
    assert_eq!(b1, ms_of(ct1, ns1));
    let _ = v1;

    let d2: u64 = kani::any();
    let (ct2, ns2) = any_file_time();
    set_file(d2, ct2, ns2);
    let file = unsafe { std::fs::File::from_raw_fd(3) };
    let got = nfs_voucher::observe_file_time(&file);
    let (b2, v2) = current_base();
    assert!(VOUCH_PARAMS.checking_parameters().check(b2, v2));
    assert!(b2 >= b1); // never decreases
    match got {
        Err(_) => assert!(false, "stat succeeded"),
        Ok((_meta, None)) => {
            assert!(d2 != d1); // only untrusted devices report nothing
            assert_eq!(b2, b1);
        }
        Ok((_meta, Some((t, v)))) => {
            assert!(d2 == d1);
            assert_eq!(t, ms_of(ct2, ns2));
            // moves only forward, and only to this file's change time
            assert_eq!(b2, if t >= b1 { t } else { b1 });
            if t >= b1 {
                // the stored pair is the returned pair (bitwise), which is checked once below
                let vb: u64 = unsafe { std::mem::transmute(v) };
                let sb: u64 = unsafe { std::mem::transmute(v2) };
                assert_eq!(vb, sb);
            }
        }
    }
    kani::cover!(d2 == d1 && ms_of(ct2, ns2) < b1, "stale file on the trusted device");
    kani::cover!(d2 == d1 && ms_of(ct2, ns2) > b1, "newer file on the trusted device");
    kani::cover!(d2 != d1, "file on an untrusted device");
    std::mem::forget(file);
}


macro_rules! stubbed {
    ($(#[$m:meta])* fn $name:ident() $body:block) => {
        $(#[$m])*
        #[kani::proof]
        #[kani::unwind(4)]
        #[kani::stub(std::fs::File::metadata, stub_metadata)]
        #[kani::stub(<std::fs::Metadata as std::os::unix::fs::MetadataExt>::dev, stub_dev)]
        #[kani::stub(<std::fs::Metadata as std::os::unix::fs::MetadataExt>::ctime, stub_ctime)]
        #[kani::stub(<std::fs::Metadata as std::os::unix::fs::MetadataExt>::ctime_nsec, stub_ctime_nsec)]
        #[kani::stub(std::fs::File::set_times, stub_set_times)]
        #[kani::stub(std::fs::OpenOptions::open, stub_open)]
        #[kani::stub(<std::os::fd::OwnedFd as std::ops::Drop>::drop, stub_fd_drop)]
        #[kani::stub(std::time::Instant::now, stub_instant_now)]
        #[kani::stub(std::time::SystemTime::now, stub_system_now)]
        fn $name() $body
    };
}

fn trust(dev: u64) -> u64 {
    let (ct, ns) = any_file_time();
    set_file(dev, ct, ns);
    match nfs_voucher::add_trusted_path(PathBuf::new()) {
        Ok(()) => {}
        Err(_) => assert!(false, "registration succeeds when open/stat/touch succeed"),
    }
    let (b, _v) = current_base();
    assert_eq!(b, ms_of(ct, ns));
    b
}

stubbed! {
    /// Two observations after trust is established: the base time is the maximum of the
    /// trusted change times seen so far, and never decreases.
    fn c19_observe_twice() {
        let d1: u64 = kani::any();
        let b1 = trust(d1);
        let file = unsafe { std::fs::File::from_raw_fd(3) };
        let mut base = b1;
        let mut i = 0;
        while i < 2 {
            let d: u64 = kani::any();
            let (ct, ns) = any_file_time();
            set_file(d, ct, ns);
            let got = nfs_voucher::observe_file_time(&file);
            let (b, _v) = current_base();
            assert!(b >= base);
            match got {
                Err(_) => assert!(false, "stat succeeded"),
                Ok((_m, None)) => {
                    assert!(d != d1);
                    assert_eq!(b, base);
                }
                Ok((_m, Some((t, _v)))) => {
                    assert!(d == d1);
                    assert_eq!(t, ms_of(ct, ns));
                    assert_eq!(b, if t >= base { t } else { base });
                }
            }
            base = b;
            i += 1;
        }
        let (bf, vf) = current_base();
        assert!(VOUCH_PARAMS.checking_parameters().check(bf, vf));
        kani::cover!(base > b1, "base time advanced by an observation");
        std::mem::forget(file);
    }
}

stubbed! {
    /// get_base_time with a `now` far past the refresh threshold scans the trusted paths;
    /// the path may meanwhile resolve to another device (symbolic), in which case nothing
    /// is trusted and the base time stays put.
    fn c19_get_base_time_scans_trusted_paths() {
        let d1: u64 = kani::any();
        let b1 = trust(d1);
        let d3: u64 = kani::any();
        let (ct, ns) = any_file_time();
        set_file(d3, ct, ns);
        let now = time::OffsetDateTime::UNIX_EPOCH + time::Duration::seconds(5_000);
        let got = nfs_voucher::get_base_time(now);
        let (b, v) = current_base();
        assert!(b >= b1);
        assert!(VOUCH_PARAMS.checking_parameters().check(b, v));
        match got {
            Ok((t, _tv)) => {
                assert!(d3 == d1);
                assert_eq!(t, ms_of(ct, ns));
                assert_eq!(b, if t >= b1 { t } else { b1 });
            }
            Err(_) => {
                assert!(d3 != d1);
                assert_eq!(b, b1);
            }
        }
        kani::cover!(got.is_ok() && b > b1, "scan moved the base time forward");
        kani::cover!(got.is_err(), "trusted path moved to an untrusted device");
        std::mem::forget(got);
    }
}

fn policy_entry_point(which: bool) {
    let d1: u64 = kani::any();
    let b1 = trust(d1);
    let d: u64 = kani::any();
    let (ct, ns) = any_file_time();
    set_file(d, ct, ns);
    let file = unsafe { std::fs::File::from_raw_fd(3) };
    if which {
        nfs_voucher::maybe_observe_file_time(&file);
    } else {
        let _ = nfs_voucher::scan_base_time();
    }
    let (b, _v) = current_base();
    assert!(b >= b1);
    assert!(b == b1 || (d == d1 && b == ms_of(ct, ns)));
    kani::cover!(b > b1, "the base time advanced");
    std::mem::forget(file);
}

stubbed! {
    /// maybe_observe_file_time only ever moves the base time to a trusted change time.
    fn c19_maybe_observe_file_time() {
        policy_entry_point(true)
    }
}

stubbed! {
    /// scan_base_time only ever moves the base time to a trusted change time.
    fn c19_scan_base_time() {
        policy_entry_point(false)
    }
}
