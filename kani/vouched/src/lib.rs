//! Kani harnesses for vouched_time: the public constructor (C14) and the NFS
//! voucher module with stubbed file system and clocks (C19).
#![allow(clippy::all)]

#[cfg(kani)]
mod c14;
#[cfg(kani)]
mod c19;
