//! C14 (public API part): VouchedTime::new / get_local_time agree with the
//! window computed directly from calendar fields, for a concrete calendar
//! minute and symbolic seconds / nanoseconds / base time / voucher source.
//!
//! The full-domain claim for the window arithmetic rests on Engine M (MIR ->
//! SMT); this harness ties the `time` crate's conversion, `new`, the stored
//! fields and `get_local_time` to it on concrete calendar minutes.
use vouched_time::VouchedTime;

const VOUCH_PARAMS: raffle::VouchingParameters = raffle::VouchingParameters::parse_or_die(
    "VOUCH-773ec2a0e62c20cd-f9e079b78e895091-fc1da7b1b77c57cb-594b9cce3091464a",
);

/// `minute_start_s`: Unix timestamp (seconds) of the concrete calendar minute;
/// `base_off_ms`: the base time is the concrete instant `minute start + base_off_ms`
/// (a symbolic base time would put raffle's 64-bit multiplications on symbolic
/// operands, which the SAT back end did not finish in 50 minutes; the base-time
/// dimension is covered without bound by Engine M).  Seconds and nanoseconds are
/// symbolic, so both window edges are crossed inside the minute by choosing the
/// offset.
fn new_at(year: i32, month: time::Month, day: u8, hour: u8, minute: u8, minute_start_s: i128, base_off_ms: i128, wrong_voucher: bool, witness: bool) {
    let sec: u8 = kani::any();
    let nanos: u32 = kani::any();
    kani::assume(sec < 60);
    kani::assume(nanos < 1_000_000_000);
    let date = time::Date::from_calendar_date(year, month, day).unwrap();
    let tod = time::Time::from_hms_nano(hour, minute, sec, nanos).unwrap();
    let local = time::PrimitiveDateTime::new(date, tod);

    let base_i = minute_start_s * 1000 + base_off_ms;
    let base: u64 = if base_i < 0 { 0 } else { base_i as u64 };
    // voucher for `base` itself, or for base + 1 (a voucher for another value)
    let voucher = VOUCH_PARAMS.vouch(if wrong_voucher { base + 1 } else { base });

    // oracle: milliseconds since the epoch, directly from the fields
    let local_ns: i128 = (minute_start_s + sec as i128) * 1_000_000_000 + nanos as i128;
    let local_ms: i128 = local_ns.div_euclid(1_000_000);
    let delta: i128 = local_ms - base as i128;
    let in_window = local_ns >= 0 && local_ms <= u64::MAX as i128 && delta >= -59_900 && delta <= 2_990;

    let got = VouchedTime::new(local, base, voucher);
    match got {
        Ok(vt) => {
            assert!(in_window && !wrong_voucher);
            // reports exactly the local time it was built from (and does not panic)
            assert!(vt.get_local_time() == local);
        }
        Err(_) => assert!(!in_window || wrong_voucher),
    }
    kani::cover!(got_ok(&got) && delta == 2_990, "accepted at the forward edge");
    kani::cover!(got_ok(&got) && delta == -59_900, "accepted at the backward edge");
    kani::cover!(!got_ok(&got) && delta == 2_991, "rejected one past the forward edge");
    kani::cover!(!got_ok(&got) && delta == -59_901, "rejected one past the backward edge");
    std::mem::forget(got);
    if witness {
        assert!(false, "reachability witness: harness end reached");
    }
}

fn got_ok(r: &std::io::Result<VouchedTime>) -> bool {
    r.is_ok()
}

macro_rules! new_proofs {
    ($($name:ident = ($y:expr, $m:expr, $d:expr, $h:expr, $mi:expr, $start:expr, $off:expr, $wrong:expr, $w:expr);)*) => {
        $(
            #[kani::proof]
            #[kani::unwind(3)]
            fn $name() {
                new_at($y, $m, $d, $h, $mi, $start, $off, $wrong, $w)
            }
        )*
    };
}

new_proofs! {
    // 1970-01-01 00:00, base = +30 s: forward edge at 32.99 s
    c14_new_epoch_minute = (1970, time::Month::January, 1, 0, 0, 0, 30_000, false, false);
    // base = +70 s: backward edge at 10.1 s
    c14_new_epoch_minute_back = (1970, time::Month::January, 1, 0, 0, 0, 70_000, false, false);
    // 1969-12-31 23:59 with base 0: every local time is before the epoch
    c14_new_before_epoch_minute = (1969, time::Month::December, 31, 23, 59, -60, 60_000, false, false);
    // 2024-04-13 17:00 == 1713027600
    c14_new_2024_minute = (2024, time::Month::April, 13, 17, 0, 1_713_027_600, 30_000, false, false);
    c14_new_2024_minute_witness = (2024, time::Month::April, 13, 17, 0, 1_713_027_600, 30_000, false, true);
    c14_new_2024_wrong_voucher = (2024, time::Month::April, 13, 17, 0, 1_713_027_600, 30_000, true, false);
    // 9999-12-31 23:59 == 253402300740
    c14_new_last_minute = (9999, time::Month::December, 31, 23, 59, 253_402_300_740, 70_000, false, false);
}
