#!/usr/bin/env python3
import os, re, subprocess
ROOT = os.path.dirname(os.path.dirname(os.path.abspath(__file__)))
table = subprocess.run(["python3", os.path.join(ROOT, "tools", "seed_matrix.py")], stdout=subprocess.PIPE, text=True).stdout
p = os.path.join(ROOT, "DESIGN.md")
s = open(p).read()
s = re.sub(r"<!-- MATRIX-BEGIN -->.*<!-- MATRIX-END -->", "<!-- MATRIX-BEGIN -->\n" + table.replace("\\", "\\\\") + "<!-- MATRIX-END -->", s, flags=re.S)
open(p, "w").write(s)
print("matrix rows:", table.count("\n") - 2)
