#!/usr/bin/env python3
"""Collects seeded/*/eval-*.txt into (a) meta.json `detected_by` and (b) a markdown table (stdout)."""
import glob
import json
import os
import re

ROOT = os.path.dirname(os.path.dirname(os.path.abspath(__file__)))
rows = []
for d in sorted(glob.glob(os.path.join(ROOT, "seeded", "*"))):
    seed = os.path.basename(d)
    if not os.path.exists(os.path.join(d, "patch.diff")):
        continue
    meta_p = os.path.join(d, "meta.json")
    meta = json.load(open(meta_p)) if os.path.exists(meta_p) else {}
    evals = []
    for f in sorted(glob.glob(os.path.join(d, "eval-*.txt"))):
        prop = re.search(r"eval-(C\d+)\.txt", f).group(1)
        text = open(f).read()
        m = re.search(r"exit=(\d+) violations=(\d+) secs=(\d+)", text)
        if m:
            rc, nv, secs = int(m.group(1)), int(m.group(2)), int(m.group(3))
        else:
            rc = 1 if "VIOLATION" in text else 0
            nv, secs = (1 if rc else 0), 0
        ce = re.search(r"^counterexample: ([^\n]*)", text, re.M)
        inc = re.search(r"^INCONCLUSIVE ([^\n]*)", text, re.M)
        verdict = {0: "missed", 1: "DETECTED", 2: "inconclusive"}.get(rc, "rc=%d" % rc)
        evals.append({"check": prop, "verdict": verdict, "secs": secs, "job": (ce.group(1).split(" :: ")[0] if ce else (inc.group(1).split(":")[0] + ":" + inc.group(1).split(":")[1] if inc and rc == 2 else "")),
                      "detail": (ce.group(1) if ce else (inc.group(1) if inc and rc == 2 else ""))[:300]})
    if evals:
        det = [e for e in evals if e["verdict"] == "DETECTED"]
        meta["detected_by"] = ("; ".join("%s quick, job %s" % (e["check"], e["job"]) for e in det) if det
                               else "NOT detected (%s)" % "; ".join("%s: %s" % (e["check"], e["verdict"]) for e in evals))
        meta["evaluations"] = evals
        json.dump(meta, open(meta_p, "w"), indent=1)
    summary = (meta.get("summary") or meta.get("needs_to_manifest") or "")
    summary = re.sub(r"\*\*", "", summary).replace("\n", " ")
    summary = re.sub(r"^Mutant [AB] — ", "", summary)[:150]
    rows.append((seed, summary, evals))
print("| seed | change (abridged) | evaluated with | verdict | job that reported it |")
print("|---|---|---|---|---|")
for seed, summary, evals in rows:
    if not evals:
        print("| %s | %s | - | not evaluated | |" % (seed, summary))
    for e in evals:
        print("| %s | %s | %s quick | %s (%d s) | %s |" % (seed, summary, e["check"], e["verdict"], e["secs"], e["job"].replace("|", "/")))
