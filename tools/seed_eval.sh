#!/bin/bash
# seed_eval.sh <seed dir name, e.g. C15-B> <PROPERTY> [extra args for ./check]
# Applies a seeded change in a scratch worktree (never in /repo) and runs the
# property's quick check against it through VERIF_REPO.
set -u
SEED=$1; PROP=$2; shift 2
WT=/tmp/mut/$SEED-$PROP
mkdir -p /tmp/mut
git -C /repo worktree remove --force $WT 2>/dev/null
git -C /repo worktree add -q --detach $WT HEAD || exit 3
if ! git -C $WT apply /verif/seeded/$SEED/patch.diff; then echo "$SEED $PROP: PATCH DOES NOT APPLY"; git -C /repo worktree remove --force $WT; exit 4; fi
cd /verif
t0=$(date +%s)
VERIF_REPO=$WT ./check $PROP --tier quick "$@" > /tmp/mut/$SEED-$PROP.log 2>&1
rc=$?
t1=$(date +%s)
viol=$(grep -c "^VIOLATION property=$PROP" /tmp/mut/$SEED-$PROP.log)
echo "$SEED $PROP: exit=$rc violations=$viol secs=$((t1-t0)) :: $(grep -E '^(counterexample|INCONCLUSIVE)' /tmp/mut/$SEED-$PROP.log | head -2 | cut -c1-220 | tr '\n' '|')"
{ echo "check: VERIF_REPO=<scratch worktree with patch.diff applied> ./check $PROP --tier quick $*"; echo "exit=$rc violations=$viol secs=$((t1-t0))"; grep -E '^(counterexample|VIOLATION|INCONCLUSIVE|also failing|C[0-9]+ quick)' /tmp/mut/$SEED-$PROP.log | cut -c1-400; } > /verif/seeded/$SEED/eval-$PROP.txt
git -C /repo worktree remove --force $WT
rm -rf /verif/.work/target/*-alt$(python3 -c "import hashlib;print(hashlib.sha1('$WT'.encode()).hexdigest()[:8])") 2>/dev/null
