#!/bin/bash
# confirm_seed.sh <ID> <A|B>: confirms a seeded change in a scratch worktree
# (outside /repo and /verif): demo passes without the change, the change
# compiles, the 122 existing tests pass with it, the demo fails with it.
# On success copies it to /verif/seeded/<ID>-<m>/ with meta.json.
set -u
ID=$1; M=$2
SRC=/tmp/seed/$ID.out/$M
DEMO_DST=$(grep -o '[a-z_]*/tests/[A-Za-z0-9_]*\.rs' $SRC/notes.md | sort -u | head -1)
CRATE=${DEMO_DST%%/*}
TEST=$(basename $DEMO_DST .rs)
WT=/tmp/confirm/$ID$M
rm -rf $WT; mkdir -p /tmp/confirm
git -C /repo worktree add -q --detach $WT HEAD || exit 3
cd $WT
export CARGO_NET_OFFLINE=true CARGO_TARGET_DIR=$WT/target
mkdir -p $CRATE/tests; cp $SRC/demo.rs $DEMO_DST
res() { echo "$ID/$M: $*"; }
cargo test --offline -p $CRATE --test $TEST > $WT.demo_clean.log 2>&1; clean_rc=$?
git apply $SRC/patch.diff || { res "PATCH DOES NOT APPLY"; git -C /repo worktree remove --force $WT; exit 4; }
mv $DEMO_DST /tmp/confirm/$ID$M.demo.rs
cargo test --offline --workspace --no-fail-fast > $WT.suite.log 2>&1; suite_rc=$?
passed=$(grep -E "^test result: ok" $WT.suite.log | sed -E 's/.* ([0-9]+) passed.*/\1/' | paste -sd+ | bc)
cp /tmp/confirm/$ID$M.demo.rs $DEMO_DST
cargo test --offline -p $CRATE --test $TEST > $WT.demo_mut.log 2>&1; mut_rc=$?
res "demo_clean_rc=$clean_rc suite_rc=$suite_rc suite_passed=$passed demo_mutant_rc=$mut_rc"
if [ $clean_rc -eq 0 ] && [ $suite_rc -eq 0 ] && [ $mut_rc -ne 0 ]; then
  D=/verif/seeded/$ID-$M; mkdir -p $D
  cp $SRC/patch.diff $D/patch.diff; cp $SRC/demo.rs $D/demo.rs; cp $SRC/notes.md $D/notes.md
  python3 - "$ID" "$M" "$DEMO_DST" "$passed" <<'PY'
import json,sys,re
ID,M,dst,passed=sys.argv[1:5]
notes=open(f"/tmp/seed/{ID}.out/{M}/notes.md").read()
meta={"property":ID,"mutant":M,"breaks":ID,"origin":"independent sub-agent given only the property text and a scratch worktree",
 "needs_to_manifest":notes.strip()[:1500],
 "demo":{"file":"demo.rs","place_at":dst,"run":f"cargo test --offline -p {dst.split('/')[0]} --test {dst.split('/')[-1][:-3]}"},
 "confirmed":{"how":"tools/confirm_seed.sh in a scratch worktree of /repo HEAD","demo_passes_without_change":True,
   "compiles_and_existing_suite_passes_with_change":True,"existing_tests_passed_with_change":int(passed or 0),"demo_fails_with_change":True},
 "detected_by":"(filled in by tools/seed_matrix)"}
json.dump(meta,open(f"/verif/seeded/{ID}-{M}/meta.json","w"),indent=1)
PY
  res CONFIRMED
else
  res "NOT CONFIRMED (see $WT.*.log)"
fi
cd /; git -C /repo worktree remove --force $WT
