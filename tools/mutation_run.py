#!/usr/bin/env python3
"""Mini mutation run over hcobs/src/{encoder,decoder}.rs: operator flips; for each mutant that compiles:
does the repo's hcobs test suite kill it? does Engine X (C07 quick mirx jobs) kill it?"""
import os, re, subprocess, sys, json, random
WT = os.environ.get("MT_WORKTREE", "/tmp/mt/wt")
subprocess.run(["git", "-C", "/repo", "worktree", "remove", "--force", WT], stderr=subprocess.DEVNULL)
subprocess.run(["git", "-C", "/repo", "worktree", "add", "-q", "--detach", WT, "HEAD"], check=True)
FLIPS = [(" < ", " <= "), (" <= ", " < "), (" > ", " >= "), (" >= ", " > "), (" == ", " != "), (" != ", " == "), (" + 1", " + 2"), (" - 1", " - 0"), (" + ", " - "), ("&&", "||"), ("true", "false"), ("false", "true"), (" % ", " / ")]
files = sys.argv[1:] or ["hcobs/src/encoder.rs", "hcobs/src/decoder.rs"]
cands = []
for f in files:
    lines = open(os.path.join(WT, f)).read().split("\n")
    intest = False
    for i, line in enumerate(lines):
        if "#[cfg(test)]" in line or line.startswith("#[test]"):
            intest = True
        if intest and line.startswith("}"):
            intest = False
        st = line.strip()
        if intest or st.startswith("//") or st.startswith("assert") or st.startswith("debug_assert") or "fn " in st or st.startswith("#"):
            continue
        lo, hi = [int(x) for x in os.environ.get("MT_LINES", "1-1000000").split("-")]
        if not (lo <= i + 1 <= hi):
            continue
        for a, b in FLIPS:
            if a in line:
                cands.append((f, i, a, b))
random.seed(int(os.environ.get("VERIF_SEED", "7")))
random.shuffle(cands)
cands = cands[: int(os.environ.get("MT_N", "40"))]
env = dict(os.environ, CARGO_TARGET_DIR=os.environ.get("MT_TARGET", "/tmp/mt/target"), CARGO_NET_OFFLINE="true")
results = []
for n, (f, i, a, b) in enumerate(cands):
    subprocess.run(["git", "-C", WT, "checkout", "-q", "--", "."], check=True)
    p = os.path.join(WT, f)
    lines = open(p).read().split("\n")
    orig = lines[i]
    lines[i] = orig.replace(a, b, 1)
    open(p, "w").write("\n".join(lines))
    c = subprocess.run(["cargo", "check", "--offline", "-q", "-p", "hcobs"], cwd=WT, env=env, stdout=subprocess.PIPE, stderr=subprocess.STDOUT, text=True)
    if c.returncode != 0:
        continue
    t = subprocess.run(["cargo", "test", "--offline", "-q", "-p", "hcobs"], cwd=WT, env=env, stdout=subprocess.PIPE, stderr=subprocess.STDOUT, text=True, timeout=900)
    tests = "killed" if t.returncode != 0 else "survived"
    e2 = dict(os.environ, VERIF_REPO=WT, VERIF_X_SHARDS="4")
    x = subprocess.run(["/verif/check", os.environ.get("MT_CHECK", "C07"), "--tier", "quick", "--only", "mirx"], cwd="/verif", env=e2, stdout=subprocess.PIPE, stderr=subprocess.STDOUT, text=True)
    xv = {0: "survived", 1: "killed", 2: "inconclusive"}.get(x.returncode, str(x.returncode))
    why = ""
    m = re.search(r"^(counterexample|INCONCLUSIVE)[^\n]*", x.stdout, re.M)
    if m:
        why = m.group(0)[:200]
    rec = {"file": f, "line": i + 1, "from": orig.strip(), "flip": "%s->%s" % (a.strip(), b.strip()), "tests": tests, "engine_x": xv, "why": why}
    results.append(rec)
    print(json.dumps(rec), flush=True)
subprocess.run(["git", "-C", "/repo", "worktree", "remove", "--force", WT])
json.dump(results, open(os.environ.get("MT_OUT", "/tmp/mt/results.json"), "w"), indent=1)
