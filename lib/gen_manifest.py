#!/usr/bin/env python3
"""Regenerates /verif/MANIFEST.json from the property registry (props.py)."""
import json
import os
import sys

HERE = os.path.dirname(os.path.abspath(__file__))
sys.path.insert(0, HERE)
import props  # noqa: E402

VERIF = os.path.dirname(HERE)

TECH = {
    "C15": "bounded model checking of the compiled Rust (Kani 0.68 -> CBMC 6.11 -> CaDiCaL): one inductive step from an arbitrary valid representation, symbolic operation and arguments, vs. a reference deque",
    "C16": "bounded model checking (Kani/CBMC/SAT): one step from an arbitrary valid tombstone layout per operation kind vs. a reference ordered map; must-panic harnesses",
    "C12": "bounded model checking (Kani/CBMC/SAT) over an arbitrary byte string of symbolic length vs. an independent acceptance predicate and value-boundary oracle",
}

NOT_YET = "check not built yet in this session (work in progress; see DESIGN.md section 4 for the plan)"


def main():
    all_ids = [json.loads(l)["id"] for l in open(os.path.join(VERIF, "properties.jsonl"))]
    extra_na = {}
    na_path = os.path.join(VERIF, "not_applicable.json")
    if os.path.exists(na_path):
        extra_na = json.load(open(na_path))
    checks = []
    for pid in all_ids:
        if pid not in props.PROPS:
            continue
        p = props.PROPS[pid]
        jobs = p.jobs("quick", 0)
        has_k = any(isinstance(j, props.Job) for j in jobs)
        has_x = any(isinstance(j, props.codecx.CodecJob) for j in jobs)
        default_tech = "bounded model checking of the compiled Rust code (Kani/CBMC/SAT)"
        if has_x and has_k:
            default_tech += "; symbolic execution of rustc MIR with symbolic bytes and SMT queries (z3 + cvc5) for the jobs marked [mirx]"
        engine = getattr(p, "engine", None) or ("+".join(x for x, on in (("kani-cbmc", has_k), ("mir-symbolic-execution-smt", has_x or not has_k)) if on))
        design_ref = "DESIGN.md section A.1 (as built)" + (", B.5/B.6 (Engine X)" if has_x else "") + ", original plan in section 4." + pid
        checks.append({
            "property_id": pid,
            "quick_cmd": "./check %s --tier quick" % pid,
            "thorough_cmd": "./check %s --tier thorough" % pid,
            "evidence_file": "/verif/evidence/%s.json" % pid,
            "replay_cmd_template": "./check %s --replay {path}" % pid,
            "engine": engine,
            "level_claimed": {
                "category": "model_checking",
                "text": ("Bounded, solver-decided: holds for EVERY value within the stated bounds (%s), nothing is claimed outside them. "
                         "Counterexamples are replayed natively against /repo before being reported." % p.bounds("quick")),
                "design_ref": design_ref,
            },
            "level_note": ("Assumes: " + "; ".join(p.assumptions) + ". Trusted base: " + "; ".join(p.trusted)
                           + ". Outside the claim: " + "; ".join(p.outside)),
            "technique": TECH.get(pid, getattr(p, "technique", default_tech)),
        })
    na = []
    for pid in all_ids:
        if pid in props.PROPS:
            continue
        na.append({"property_id": pid, "reason": extra_na.get(pid, NOT_YET)})
    man = {
        "version": 1,
        "setup_cmd": "./setup.sh",
        "hooks": {
            "guard": "woodpile_verif (companions: woodpile_verif_hcobs_limits, woodpile_verif_arena select the constant-replacing twins)",
            "enable": "RUSTFLAGS='--cfg woodpile_verif --cfg woodpile_verif_hcobs_limits --cfg woodpile_verif_arena' plus WOODPILE_VERIF_HCOBS_LIMITS=a,b WOODPILE_VERIF_ARENA_CHUNK=base,shift WOODPILE_VERIF_COPY_LIMITS=small,opportunistic at compile time; set per job by ./check",
            "baseline_off_cmd": "cd /repo && cargo test --workspace --no-fail-fast --offline",
            "source_commits": json.load(open(os.path.join(VERIF, "hooks.json")))["source_commits"],
            "add_only": True,
        },
        "engines": [
            {"name": "mir-wmm-smt", "path": "/verif/lib/wmm.py", "serves_properties": [c["property_id"] for c in checks if c["engine"] == "mir-wmm-smt"],
             "kind_free_text": "weak-memory BMC: event trees extracted from MIR (orderings read from the source on every run), RC11-style axioms, solver searches interleavings and reads-from choices"},
            {"name": "mir-smt", "path": "/verif/lib/mir.py, /verif/lib/smtengine.py", "serves_properties": [c["property_id"] for c in checks if "mir-smt" in c["engine"]],
             "kind_free_text": "rustc MIR (-Zunpretty=mir, regenerated from /repo on every run) symbolically executed into SMT-LIB2; z3 and cvc5 must agree; counterexamples replayed through a native driver"},
            {"name": "kani-cbmc", "path": "/verif/kani", "serves_properties": [c["property_id"] for c in checks if c["engine"] == "kani-cbmc"],
             "kind_free_text": "out-of-tree Kani harness crates with path dependencies on /repo; CBMC + CaDiCaL decide every obligation for all inputs within the bounds; driver lib/kanirun.py"},
        ],
        "checks": checks,
        "not_applicable": na,
        "notes": "All results are bounded: 'holds for every value within <bounds>'. Exit 2 = inconclusive (timeout / out of memory / unwinding bound / vacuous / non-reproducing counterexample); it is never reported as a pass.",
    }
    with open(os.path.join(VERIF, "MANIFEST.json"), "w") as f:
        json.dump(man, f, indent=1)
    print("MANIFEST.json: %d checks, %d not applicable" % (len(checks), len(na)))


if __name__ == "__main__":
    main()
