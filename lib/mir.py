"""Minimal MIR front end: parses `-Zunpretty=mir` dumps and symbolically executes
loop-free integer function bodies into SMT-LIB2 terms (Engine M), or into
guarded event lists (Engine W).  Unsupported constructs raise Unsupported —
the caller reports that as inconclusive, never as a pass.
"""
import os
import re
import subprocess

REPO = os.environ.get("VERIF_REPO", "/repo")


class Unsupported(Exception):
    pass


def dump_mir(crate, workdir):
    """Regenerates the MIR dump of /repo/<crate> (lib target) from the current working tree."""
    if REPO != "/repo":
        import hashlib
        workdir = workdir + "-alt" + hashlib.sha1(REPO.encode()).hexdigest()[:8]
    os.makedirs(workdir, exist_ok=True)
    out = os.path.join(workdir, crate + ".mir")
    # the dump is a function of the workspace sources: re-dump whenever any source file differs from the one the
    # cached dump was made from (content hash, not mtime), reuse it otherwise (several jobs / shards ask for it per run)
    import hashlib
    h = hashlib.sha1()
    for root, dirs, files in sorted(os.walk(REPO)):
        dirs[:] = sorted(d for d in dirs if d not in ("target", ".git"))
        for f in sorted(files):
            if f.endswith((".rs", ".toml", ".lock")):
                fp = os.path.join(root, f)
                h.update(os.path.relpath(fp, REPO).encode())
                h.update(open(fp, "rb").read())
    stamp = h.hexdigest()
    stamp_file = out + ".stamp"
    if os.path.exists(out) and os.path.exists(stamp_file) and open(stamp_file).read() == stamp:
        text = open(out).read()
        if text.strip():
            return text
    env = dict(os.environ)
    env["CARGO_TARGET_DIR"] = os.path.join(workdir, "target")
    env["CARGO_NET_OFFLINE"] = "true"
    env.pop("RUSTFLAGS", None)
    src = os.path.join(REPO, crate, "src", "lib.rs")
    os.utime(src, None)  # force a re-run (otherwise the dump is empty)
    p = subprocess.run(["cargo", "+nightly", "rustc", "--offline", "--lib", "--", "-Zunpretty=mir",
                        "-C", "debug-assertions=off", "-C", "overflow-checks=on"],
                       cwd=os.path.join(REPO, crate), env=env, stdout=subprocess.PIPE, stderr=subprocess.PIPE, text=True)
    if p.returncode != 0 or not p.stdout.strip():
        raise Unsupported("MIR dump failed: " + p.stderr[-2000:])
    open(out + ".tmp", "w").write(p.stdout)
    os.replace(out + ".tmp", out)
    open(stamp_file, "w").write(stamp)
    return p.stdout


class Body:
    def __init__(self, name, sig, text):
        self.name = name
        self.sig = sig
        self.text = text
        self.args = []       # [(local, type)]
        self.locals = {}     # local -> type
        self.blocks = {}     # "bb0" -> [lines]
        self.ret_type = None
        self._parse()

    def _parse(self):
        m = re.match(r"fn (.*?)\((.*)\) -> (.*) \{$", self.sig.strip())
        if not m:
            m2 = re.match(r"fn (.*?)\((.*)\) \{$", self.sig.strip())
            if not m2:
                raise Unsupported("cannot parse signature: " + self.sig)
            args, self.ret_type = m2.group(2), "()"
        else:
            args, self.ret_type = m.group(2), m.group(3)
        for a in split_top(args):
            a = a.strip()
            if not a:
                continue
            mm = re.match(r"(_\d+): (.*)$", a)
            if not mm:
                raise Unsupported("cannot parse argument: " + a)
            self.args.append((mm.group(1), mm.group(2)))
            self.locals[mm.group(1)] = mm.group(2)
        cur = None
        for line in self.text.split("\n"):
            s = line.strip()
            mm = re.match(r"let (?:mut )?(_\d+): (.*);$", s)
            if mm:
                self.locals[mm.group(1)] = mm.group(2)
                continue
            mm = re.match(r"(bb\d+)(?: \(cleanup\))?: \{$", s)
            if mm:
                cur = mm.group(1)
                self.blocks[cur] = []
                continue
            if s == "}":
                cur = None
                continue
            if cur is not None and s and not s.startswith("//"):
                self.blocks[cur].append(s)


def balanced(s):
    d = 0
    for c in s:
        if c in "([{":
            d += 1
        elif c in ")]}":
            d -= 1
            if d < 0:
                return False
    return d == 0


def split_top(s, sep=","):
    """Splits at top-level separators (ignoring those nested in brackets/quotes)."""
    out, depth, cur, inq = [], 0, "", False
    i = 0
    while i < len(s):
        c = s[i]
        if inq:
            cur += c
            if c == "\\" and i + 1 < len(s):
                cur += s[i + 1]
                i += 1
            elif c == '"':
                inq = False
        elif c == '"':
            inq = True
            cur += c
        elif c in "([{<":
            # '<' also appears as comparison only inside operators we do not split
            depth += 1
            cur += c
        elif c in ")]}>":
            if c == ">" and i > 0 and s[i - 1] == "-":
                cur += c  # '->'
            else:
                depth -= 1
                cur += c
        elif c == sep and depth == 0:
            out.append(cur)
            cur = ""
        else:
            cur += c
        i += 1
    if cur.strip():
        out.append(cur)
    return out


class Module:
    def __init__(self, text):
        self.text = text
        self.bodies = {}
        self.consts = {}
        self._parse()

    def _parse(self):
        lines = self.text.split("\n")
        i = 0
        while i < len(lines):
            line = lines[i]
            m = re.match(r"const ([^:]+): (\w+) = const (-?\d+)_(\w+);", line)
            if m:
                self.consts[m.group(1).strip()] = (int(m.group(3)), m.group(4))
            if line.startswith("fn "):
                j = i + 1
                while j < len(lines) and lines[j] != "}":
                    j += 1
                name = re.match(r"fn (.*?)\(", line).group(1)
                body = Body(name, line, "\n".join(lines[i + 1:j + 1]))
                # promoted / duplicate (const fn) bodies: keep the last runtime version
                self.bodies.setdefault(name, []).append(body)
                i = j
            i += 1
        # block-form integer constants: `const X: u64 = { ... _0 = ...; }` are resolved lazily

    def find(self, suffix, nth=-1):
        hits = [k for k in self.bodies if k.endswith(suffix)]
        if len(hits) != 1:
            raise Unsupported("function %r: %d candidates %r" % (suffix, len(hits), hits[:5]))
        return self.bodies[hits[0]][nth]


INT_TYPES = {"u8": (8, False), "u16": (16, False), "u32": (32, False), "u64": (64, False), "u128": (128, False),
             "usize": (64, False), "i8": (8, True), "i16": (16, True), "i32": (32, True), "i64": (64, True),
             "i128": (128, True), "isize": (64, True)}


def bvconst(v, w):
    return "(_ bv%d %d)" % (v % (1 << w), w)


def lit(term):
    """Integer value of a literal bit-vector term, else None."""
    m = re.match(r"^\(_ bv(\d+) (\d+)\)$", term or "")
    return int(m.group(1)) if m else None


def fold_bool(term):
    if term in ("true", "false"):
        return term == "true"
    return None


class Val:
    """kind: 'int' (term, width, signed) | 'bool' (term) | 'tuple' (items) | 'adt' (ctor, payload) | 'opaque' (desc)"""

    def __init__(self, kind, **kw):
        self.kind = kind
        self.__dict__.update(kw)

    def __repr__(self):
        return "Val(%s,%s)" % (self.kind, {k: v for k, v in self.__dict__.items() if k != "kind"})


def mk_int(term, w, signed):
    return Val("int", term=term, w=w, signed=signed)


def mk_bool(term):
    return Val("bool", term=term)


class Path:
    def __init__(self, cond, outcome, value=None, note="", events=None):
        self.cond = cond          # list of SMT Bool terms (conjunction)
        self.outcome = outcome    # 'return' | 'panic'
        self.value = value
        self.note = note
        self.events = events or []


class Exec:
    """Path-enumerating symbolic executor for one MIR body."""

    def __init__(self, module, call_handler=None, max_paths=4096, max_visits=1):
        self.m = module
        self.call_handler = call_handler
        self.max_paths = max_paths
        self.max_visits = max_visits
        self.fresh = 0
        self.decls = []

    def fresh_int(self, hint, w, signed=False):
        self.fresh += 1
        name = "%s_%d" % (re.sub(r"\W", "_", hint), self.fresh)
        self.decls.append("(declare-const %s (_ BitVec %d))" % (name, w))
        return mk_int(name, w, signed)

    def fresh_bool(self, hint):
        self.fresh += 1
        name = "%s_%d" % (re.sub(r"\W", "_", hint), self.fresh)
        self.decls.append("(declare-const %s Bool)" % name)
        return mk_bool(name)

    def run(self, body, args, ctx=None):
        env = {}
        for (loc, _ty), v in zip(body.args, args):
            env[loc] = v
        paths = []
        self._walk(body, "bb0", env, [], paths, {}, ctx if ctx is not None else [])
        return paths

    # ---- operands -----------------------------------------------------
    def const(self, text, body):
        text = text.strip()
        m = re.match(r"^(-?\d+)_(\w+)$", text)
        if m and m.group(2) in INT_TYPES:
            w, s = INT_TYPES[m.group(2)]
            return mk_int(bvconst(int(m.group(1)), w), w, s)
        if text in ("true", "false"):
            return mk_bool(text)
        if text == "()":
            return Val("tuple", items=[])
        m = re.match(r"^(i\d+|isize)::MIN$", text)
        if m:
            w, s = INT_TYPES[m.group(1)]
            return mk_int(bvconst(-(1 << (w - 1)), w), w, s)
        m = re.match(r"^(?:core|std)::num::<impl (\w+)>::(MAX|MIN)$", text)
        if m:
            w, s = INT_TYPES[m.group(1)]
            v = ((1 << (w - 1)) - 1 if s else (1 << w) - 1) if m.group(2) == "MAX" else (-(1 << (w - 1)) if s else 0)
            return mk_int(bvconst(v, w), w, s)
        if text.startswith('"'):
            return Val("opaque", desc=text)
        if text in self.m.consts:
            v, ty = self.m.consts[text]
            w, s = INT_TYPES[ty]
            return mk_int(bvconst(v, w), w, s)
        for k, (v, ty) in self.m.consts.items():
            if k.endswith("::" + text) or text.endswith("::" + k):
                w, s = INT_TYPES[ty]
                return mk_int(bvconst(v, w), w, s)
        return Val("opaque", desc="const " + text)

    def operand(self, text, env, body):
        text = text.strip()
        if text.startswith("const "):
            return self.const(text[6:], body)
        m = re.match(r"^(?:copy|move) (.*)$", text)
        if m:
            return self.read_place(m.group(1).strip(), env, body)
        raise Unsupported("operand: " + text)

    # ---- places ---------------------------------------------------------
    def parse_place(self, text):
        """Returns (base_local, [projection...]) for `_N`, `(*P)`, `(P.k: T)`, `(P as V)`, `P[_i]`."""
        text = text.strip()
        m = re.match(r"^(_\d+)$", text)
        if m:
            return m.group(1), []
        if text.endswith("]") and not text.startswith("["):
            depth = 0
            for i in range(len(text) - 1, -1, -1):
                if text[i] == "]":
                    depth += 1
                elif text[i] == "[":
                    depth -= 1
                    if depth == 0:
                        base, proj = self.parse_place(text[:i])
                        return base, proj + [("index", text[i + 1:-1].strip())]
        if text.startswith("(") and text.endswith(")"):
            inner = text[1:-1].strip()
            if inner.startswith("*"):
                base, proj = self.parse_place(inner[1:])
                return base, proj + [("deref",)]
            m = re.match(r"^(.*) as (\w+)$", inner)
            if m and balanced(m.group(1)):
                base, proj = self.parse_place(m.group(1))
                return base, proj + [("variant", m.group(2))]
            parts = split_top(inner, ":")
            if len(parts) >= 2:
                head = parts[0].strip()
                ty = ":".join(parts[1:]).strip()
                k = head.rfind(".")
                if k > 0 and balanced(head[:k]):
                    base, proj = self.parse_place(head[:k])
                    return base, proj + [("field", head[k + 1:], ty)]
        raise Unsupported("place: " + text)

    def read_place(self, text, env, body):
        base, proj = self.parse_place(text)
        if base not in env:
            raise Unsupported("read of unassigned local %s in %s" % (base, text))
        v = env[base]
        for p in proj:
            if p[0] == "field":
                k = p[1]
                if v.kind == "tuple":
                    v = v.items[int(k)]
                elif v.kind == "adt" and isinstance(v.payload, dict):
                    keys = list(v.payload)
                    v = v.payload[k] if k in v.payload else v.payload[keys[int(k)]] if k.isdigit() and int(k) < len(keys) else \
                        (list(v.payload.values())[0] if v.ctor.endswith("TransmuteVoucher") else None)
                    if v is None:
                        raise Unsupported("field %s of %r" % (k, text))
                elif v.kind == "adt":
                    v = v.payload
                elif v.kind == "ref":
                    v = Val("ref", path=v.path + (("f", k),), ty=p[2])
                else:
                    raise Unsupported("field of %r in %s" % (v, text))
            elif p[0] == "variant":
                if v.kind != "adt" or v.ctor != p[1]:
                    raise Unsupported("downcast of %r to %s" % (v, p[1]))
            elif p[0] == "deref":
                if v.kind != "ref":
                    raise Unsupported("deref of %r" % (v,))
            elif p[0] == "index":
                idx = self.read_place(p[1], env, body)
                if v.kind != "ref":
                    raise Unsupported("index of %r" % (v,))
                v = Val("ref", path=v.path + (("i", idx.term),), ty="")
            else:
                raise Unsupported("projection")
        return v

    # ---- rvalues ------------------------------------------------------
    def rvalue(self, dst, text, env, body):
        text = text.strip()
        m = re.match(r"^(.*) as (.*) \(PointerCoercion\(.*\)\)$", text)
        if m:
            v = self.operand(m.group(1), env, body)
            mm = re.search(r"; (\d+)\]", getattr(v, "ty", "") or "")
            if v.kind == "ref" and mm:
                v = Val("ref", path=v.path, ty=v.ty, arraylen=int(mm.group(1)))
            return v
        m = re.match(r"^(\w+)\((.*)\)$", text)
        BIN = {"Add": "bvadd", "Sub": "bvsub", "Mul": "bvmul", "BitAnd": "bvand", "BitOr": "bvor", "BitXor": "bvxor"}
        CMP = {"Lt": ("bvslt", "bvult"), "Le": ("bvsle", "bvule"), "Gt": ("bvsgt", "bvugt"), "Ge": ("bvsge", "bvuge")}
        if m and m.group(1) in list(BIN) + list(CMP) + ["Eq", "Ne", "Div", "Rem", "Shl", "Shr", "AddWithOverflow",
                                                        "SubWithOverflow", "MulWithOverflow", "AddUnchecked", "SubUnchecked"]:
            op = m.group(1)
            a, b = [self.operand(x, env, body) for x in split_top(m.group(2))]
            if a.kind == "bool" and b.kind == "bool":
                fa, fb = fold_bool(a.term), fold_bool(b.term)
                if op == "BitAnd" and (fa is False or fb is False):
                    return mk_bool("false")
                if op == "BitAnd" and fa is True:
                    return b
                if op == "BitAnd" and fb is True:
                    return a
                if op == "BitAnd":
                    return mk_bool("(and %s %s)" % (a.term, b.term))
                if op == "BitOr":
                    return mk_bool("(or %s %s)" % (a.term, b.term))
                if op == "BitXor":
                    return mk_bool("(xor %s %s)" % (a.term, b.term))
                if op == "Eq":
                    return mk_bool("(= %s %s)" % (a.term, b.term))
                if op == "Ne":
                    return mk_bool("(not (= %s %s))" % (a.term, b.term))
            if a.kind != "int" or b.kind != "int":
                raise Unsupported("binary op on non-integers: " + text)
            w, s = a.w, a.signed
            if op in BIN or op in ("AddUnchecked", "SubUnchecked"):
                f = BIN.get(op, "bvadd" if op.startswith("Add") else "bvsub")
                return mk_int("(%s %s %s)" % (f, a.term, b.term), w, s)
            la, lb = lit(a.term), lit(b.term)
            if la is not None and lb is not None and op in ("Eq", "Ne", "Lt", "Le", "Gt", "Ge"):
                if s:
                    sa = la - (1 << w) if la >= (1 << (w - 1)) else la
                    sb_ = lb - (1 << w) if lb >= (1 << (w - 1)) else lb
                else:
                    sa, sb_ = la, lb
                r = {"Eq": sa == sb_, "Ne": sa != sb_, "Lt": sa < sb_, "Le": sa <= sb_, "Gt": sa > sb_, "Ge": sa >= sb_}[op]
                return mk_bool("true" if r else "false")
            if op in CMP:
                return mk_bool("(%s %s %s)" % (CMP[op][0 if s else 1], a.term, b.term))
            if op == "Eq":
                return mk_bool("(= %s %s)" % (a.term, b.term))
            if op == "Ne":
                return mk_bool("(not (= %s %s))" % (a.term, b.term))
            if op == "Div":
                return mk_int("(%s %s %s)" % ("bvsdiv" if s else "bvudiv", a.term, b.term), w, s)
            if op == "Rem":
                return mk_int("(%s %s %s)" % ("bvsrem" if s else "bvurem", a.term, b.term), w, s)
            if op in ("AddWithOverflow", "SubWithOverflow", "MulWithOverflow"):
                f = {"A": "bvadd", "S": "bvsub", "M": "bvmul"}[op[0]]
                ext = (lambda t: "((_ sign_extend %d) %s)" % (w, t)) if s else (lambda t: "((_ zero_extend %d) %s)" % (w, t))
                wide = "(%s %s %s)" % (f, ext(a.term), ext(b.term))
                res = "(%s %s %s)" % (f, a.term, b.term)
                ovf = "(not (= %s %s))" % (wide, ext(res))
                return Val("tuple", items=[mk_int(res, w, s), mk_bool(ovf)])
            raise Unsupported("op " + op)
        m = re.match(r"^(Neg|Not)\((.*)\)$", text)
        if m:
            a = self.operand(m.group(2), env, body)
            if a.kind == "bool":
                return mk_bool("(not %s)" % a.term)
            return mk_int("(%s %s)" % ("bvneg" if m.group(1) == "Neg" else "bvnot", a.term), a.w, a.signed)
        m = re.match(r"^(.*) as (\w+) \(IntToInt\)$", text)
        if m:
            a = self.operand(m.group(1), env, body)
            w2, s2 = INT_TYPES[m.group(2)]
            if a.kind == "bool":
                return mk_int("(ite %s %s %s)" % (a.term, bvconst(1, w2), bvconst(0, w2)), w2, s2)
            if a.kind != "int":
                raise Unsupported("cast of non-int: " + text)
            if w2 == a.w:
                t = a.term
            elif w2 < a.w:
                t = "((_ extract %d 0) %s)" % (w2 - 1, a.term)
            elif a.signed:
                t = "((_ sign_extend %d) %s)" % (w2 - a.w, a.term)
            else:
                t = "((_ zero_extend %d) %s)" % (w2 - a.w, a.term)
            return mk_int(t, w2, s2)
        m = re.match(r"^(?:std::result::)?Result::<.*>::(Ok|Err)\((.*)\)$", text)
        if m:
            return Val("adt", ctor=m.group(1), payload=self.operand(m.group(2), env, body))
        m = re.match(r"^(?:std::option::)?Option::<.*>::Some\((.*)\)$", text)
        if m:
            return Val("adt", ctor="Some", payload=self.operand(m.group(1), env, body))
        if re.match(r"^(?:std::option::)?Option::<.*>::None$", text):
            return Val("adt", ctor="None", payload=None)
        m = re.match(r"^\((.*)\)$", text)
        if m and not text.startswith("(_"):
            items = [self.operand(x, env, body) for x in split_top(m.group(1)) if x.strip()]
            return Val("tuple", items=items)
        if text.startswith("copy ") or text.startswith("move ") or text.startswith("const "):
            return self.operand(text, env, body)
        m = re.match(r"^&(?:mut |raw const |raw mut )?(.*)$", text)
        if m:
            try:
                base, proj = self.parse_place(m.group(1))
            except Unsupported:
                return Val("opaque", desc="ref " + m.group(1))
            if base in env and env[base].kind == "ref":
                v = self.read_place(m.group(1), env, body)
                if v.kind == "ref":
                    return v
            return Val("ref", path=(("local", body.name, base),) + tuple(("p", repr(x)) for x in proj), ty="", target=base)
        m = re.match(r"^discriminant\((.*)\)$", text)
        if m:
            v = self.read_place(m.group(1), env, body)
            if v.kind != "adt":
                raise Unsupported("discriminant of %r" % (v,))
            table = {"Ok": 0, "Err": 1, "None": 0, "Some": 1, "Continue": 0, "Break": 1, "Poisoned": 0, "WouldBlock": 1}
            if v.ctor not in table:
                raise Unsupported("discriminant of ctor " + v.ctor)
            return mk_int(bvconst(table[v.ctor], 64), 64, True)
        m = re.match(r"^PtrMetadata\((.*)\)$", text)
        if m:
            v = self.operand(m.group(1), env, body)
            n = getattr(v, "arraylen", None)
            if n is None:
                raise Unsupported("PtrMetadata of %r" % (v,))
            return mk_int(bvconst(n, 64), 64, False)
        m = re.match(r"^(.*) as (.*) \(PointerCoercion\(.*\)\)$", text)
        if m:
            v = self.operand(m.group(1), env, body)
            mm = re.search(r"; (\d+)\]", getattr(v, "ty", "") or "")
            if v.kind == "ref" and mm:
                v = Val("ref", path=v.path, ty=v.ty, arraylen=int(mm.group(1)))
            return v
        m = re.match(r"^std::sync::atomic::Ordering::(\w+)$", text)
        if m:
            return Val("enumconst", name=m.group(1))
        m = re.match(r"^(\w[\w:<>, ]*) \{ (.*) \}$", text)
        if m:
            fields = {}
            for f in split_top(m.group(2)):
                k, v = f.split(":", 1)
                fields[k.strip()] = self.operand(v, env, body)
            return Val("adt", ctor=m.group(1), payload=fields)
        raise Unsupported("rvalue: " + text)

    # ---- control flow ---------------------------------------------------
    def _walk(self, body, bb, env, cond, paths, visits, ctx):
        if len(paths) > self.max_paths:
            raise Unsupported("too many paths")
        visits = dict(visits)
        visits[bb] = visits.get(bb, 0) + 1
        if visits[bb] > self.max_visits:
            paths.append(Path(cond, "loop_bound", note="block %s visited more than %d times" % (bb, self.max_visits), events=list(ctx)))
            return
        env = dict(env)
        lines = body.blocks[bb]
        for idx, s in enumerate(lines):
            last = idx == len(lines) - 1
            if s.startswith("StorageLive") or s.startswith("StorageDead") or s.startswith("nop") \
                    or s.startswith("FakeRead") or s.startswith("PlaceMention") or s.startswith("Retag") or s.startswith("AscribeUserType"):
                continue
            if not last:
                m = re.match(r"^(_\d+) = (.*);$", s)
                if m:
                    env[m.group(1)] = self.rvalue(m.group(1), m.group(2), env, body)
                    continue
                m = re.match(r"^\((_\d+)\.(\d+): .*\) = (.*);$", s)
                if m:
                    raise Unsupported("field assignment: " + s)
                raise Unsupported("statement: " + s)
            # terminator
            if s == "return;":
                paths.append(Path(cond, "return", env.get("_0", Val("tuple", items=[])), events=list(ctx)))
                return
            if s in ("unreachable;", "resume;"):
                return
            m = re.match(r"^goto -> (bb\d+);$", s)
            if m:
                return self._walk(body, m.group(1), env, cond, paths, visits, ctx)
            m = re.match(r"^switchInt\((.*)\) -> \[(.*)\];$", s)
            if m:
                v = self.operand(m.group(1), env, body)
                arms = [a.strip() for a in m.group(2).split(",")]
                concrete = None
                if v.kind == "int" and lit(v.term) is not None:
                    concrete = lit(v.term)
                elif v.kind == "bool" and fold_bool(v.term) is not None:
                    concrete = 1 if fold_bool(v.term) else 0
                if concrete is not None:
                    target = None
                    for a in arms:
                        k, tgt = [x.strip() for x in a.split(":")]
                        if k != "otherwise" and int(k) == concrete:
                            target = tgt
                    if target is None:
                        target = [a.split(":")[1].strip() for a in arms if a.split(":")[0].strip() == "otherwise"][0]
                    return self._walk(body, target, env, cond, paths, visits, ctx)
                taken = []
                for a in arms:
                    k, tgt = [x.strip() for x in a.split(":")]
                    if k == "otherwise":
                        c = ["(not %s)" % t for t in taken]
                        self._walk(body, tgt, env, cond + c, paths, visits, ctx)
                    else:
                        if v.kind == "bool":
                            c = v.term if int(k) != 0 else "(not %s)" % v.term
                        elif v.kind == "int":
                            c = "(= %s %s)" % (v.term, bvconst(int(k), v.w))
                        elif v.kind == "adt_disc":
                            c = "(= %s %d)" % (v.term, int(k))
                        else:
                            raise Unsupported("switchInt on " + repr(v))
                        taken.append(c)
                        self._walk(body, tgt, env, cond + [c], paths, visits, ctx)
                return
            m = re.match(r"^assert\((!?)(.*?), \"(.*?)\".*\) -> \[success: (bb\d+), unwind.*\];$", s)
            if m:
                v = self.operand(m.group(2), env, body)
                fv = fold_bool(v.term)
                if fv is not None:
                    holds = (not fv) if m.group(1) else fv
                    if holds:
                        return self._walk(body, m.group(4), env, cond, paths, visits, ctx)
                    paths.append(Path(cond, "panic", note=m.group(3), events=list(ctx)))
                    return
                ok = "(not %s)" % v.term if m.group(1) else v.term
                paths.append(Path(cond + ["(not %s)" % ok], "panic", note=m.group(3), events=list(ctx)))
                return self._walk(body, m.group(4), env, cond + [ok], paths, visits, ctx)
            m = re.match(r"^(_\d+) = (.*?)\((.*)\) -> \[return: (bb\d+), unwind.*\];$", s)
            if m:
                dst, callee, argtext, nxt = m.groups()
                args = [self.operand(a, env, body) for a in split_top(argtext) if a.strip()]
                if self.call_handler is None:
                    raise Unsupported("call: " + callee)
                outs = self.call_handler(self, callee, args, body.locals.get(dst), cond, ctx)
                # outs: list of (extra_cond, value or ('panic', note), ctx)
                for extra, val, nctx in outs:
                    if isinstance(val, tuple) and val and val[0] == "panic":
                        paths.append(Path(cond + extra, "panic", note=val[1], events=list(nctx)))
                        continue
                    e2 = dict(env)
                    e2[dst] = val
                    self._walk(body, nxt, e2, cond + extra, paths, visits, nctx)
                return
            m = re.match(r"^(_\d+) = (.*?)\((.*)\) -> (?:unwind.*|\[.*\]|bb\d+);$", s)
            if m:
                # diverging call (panic helpers)
                paths.append(Path(cond, "panic", note="diverging call " + m.group(2), events=list(ctx)))
                return
            m = re.match(r"^drop\((.*)\) -> \[return: (bb\d+), unwind.*\];$", s)
            if m:
                if self.call_handler is not None:
                    outs = self.call_handler(self, "drop", [self.operand("move " + m.group(1), env, body)] if m.group(1) in env else [], None, cond, ctx)
                    for extra, val, nctx in outs:
                        self._walk(body, m.group(2), env, cond + extra, paths, visits, nctx)
                    return
                return self._walk(body, m.group(2), env, cond, paths, visits, ctx)
            raise Unsupported("terminator: " + s)


# ---------------------------------------------------------------------------
# solvers

def conj(terms):
    terms = [t for t in terms if t != "true"]
    if not terms:
        return "true"
    if len(terms) == 1:
        return terms[0]
    return "(and %s)" % " ".join(terms)


def disj(terms):
    if not terms:
        return "false"
    if len(terms) == 1:
        return terms[0]
    return "(or %s)" % " ".join(terms)


SOLVERS = {
    "z3": ["/usr/bin/z3", "-smt2", "-in"],
    "cvc5": ["cvc5", "--lang", "smt2", "--produce-models"],
}


def solve(script, solver, timeout=300):
    """Returns (answer, model_text, seconds).  Any `(error` line makes the answer 'error'."""
    import time
    t0 = time.time()
    try:
        p = subprocess.run(SOLVERS[solver], input=script, stdout=subprocess.PIPE, stderr=subprocess.STDOUT, text=True, timeout=timeout)
    except subprocess.TimeoutExpired:
        return "timeout", "", time.time() - t0
    out = p.stdout
    dt = time.time() - t0
    if "(error" in out:
        return "error", out, dt
    first = out.strip().split("\n")[0].strip() if out.strip() else ""
    if first not in ("sat", "unsat", "unknown"):
        return "error", out, dt
    return first, out, dt


def model_values(model_text):
    """Parses (define-fun name () (_ BitVec n) #x..) / Bool / Int from a model."""
    vals = {}
    for m in re.finditer(r"\(define-fun (\S+) \(\) (\(_ BitVec \d+\)|Bool|Int)\s+([^\n]*?)\)\s*$", model_text, re.M):
        name, sort, v = m.groups()
        v = v.strip()
        if v.startswith("#x"):
            vals[name] = int(v[2:], 16)
        elif v.startswith("#b"):
            vals[name] = int(v[2:], 2)
        elif v in ("true", "false"):
            vals[name] = v == "true"
        else:
            mm = re.match(r"^\(- (\d+)\)$", v)
            if mm:
                vals[name] = -int(mm.group(1))
            elif re.match(r"^\d+$", v):
                vals[name] = int(v)
            else:
                vals[name] = v
    return vals
