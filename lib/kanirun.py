"""Kani/CBMC job runner: builds harness crates against /repo's working tree,
runs harnesses in parallel under memory/time caps, parses CBMC's per-check
results and classifies each job.

A job is PASS only when CBMC reports VERIFICATION SUCCESSFUL with every
expected cover SATISFIED (or, for a *witness* twin, when exactly the final
`assert!(false)` fails).  Timeouts, out-of-memory runs, unwinding-assertion
failures and unsatisfied covers are INCONCLUSIVE, never a pass.
"""
import hashlib
import json
import os
import re
import resource
import shutil
import subprocess
import threading
import time
from concurrent.futures import ThreadPoolExecutor

VERIF = os.path.dirname(os.path.dirname(os.path.abspath(__file__)))
REPO = os.environ.get("VERIF_REPO", "/repo")
WORK = os.path.join(VERIF, ".work")

PASS, VIOLATION, INCONCLUSIVE = "PASS", "VIOLATION", "INCONCLUSIVE"


class Job:
    def __init__(self, crate, harness, *, cfgs=(), env=None, timeout=900, mem_gb=8,
                 kind="proof", covers=None, unwindset=None, stubbing=False,
                 bounds="", note="", extra_args=(), unwind_fns=None):
        self.crate = crate            # directory under /verif/kani
        self.harness = harness        # fully qualified, e.g. c15::c15_step_vec
        self.cfgs = tuple(cfgs)       # extra --cfg names (hooks)
        self.env = dict(env or {})    # hook environment (compile-time limits)
        # VERIF_TIMEOUT_SCALE stretches every per-job cap (for a loaded machine); a timeout is always INCONCLUSIVE, never a pass
        self.timeout = int(timeout * float(os.environ.get("VERIF_TIMEOUT_SCALE", "1")))
        self.mem_gb = mem_gb
        self.kind = kind              # proof | witness
        self.covers = covers          # None = all covers must be SATISFIED; else set of descriptions allowed UNSAT
        self.unwindset = unwindset
        self.stubbing = stubbing
        self.bounds = bounds
        self.note = note
        self.extra_args = tuple(extra_args)
        self.unwind_fns = dict(unwind_fns or {})  # regex on demangled function name -> loop bound

    def config_key(self):
        h = hashlib.sha1(json.dumps([self.crate, self.cfgs, sorted(self.env.items())]).encode()).hexdigest()[:10]
        return "%s-%s" % (self.crate, h)

    @property
    def name(self):
        tag = ",".join("%s=%s" % kv for kv in sorted(self.env.items()))
        return self.harness + ("[" + tag + "]" if tag else "")


def _env_for(job):
    env = dict(os.environ)
    env["CARGO_NET_OFFLINE"] = "true"
    flags = env.get("RUSTFLAGS", "")
    for c in job.cfgs:
        flags += " --cfg " + c
    if flags.strip():
        env["RUSTFLAGS"] = flags.strip()
    else:
        env.pop("RUSTFLAGS", None)
    env.update(job.env)
    return env


ALT = "" if REPO == "/repo" else "-alt" + hashlib.sha1(REPO.encode()).hexdigest()[:8]


def crate_dir_of(crate):
    """Harness crates have path dependencies on /repo.  When VERIF_REPO points somewhere else (evaluating a
    seeded change in a scratch worktree without touching /repo), a copy of the harness crate with the
    paths rewritten is used instead."""
    base = os.path.join(VERIF, "kani", crate)
    if not ALT:
        return base
    return os.path.join(WORK, "crates" + ALT, crate)


def crate_dir(job):
    return crate_dir_of(job.crate)


def target_dir(job):
    return os.path.join(WORK, "target", job.config_key() + ALT)


def prepare_crate(crate):
    """Harness crates use path dependencies on /repo and its lock file."""
    d = crate_dir_of(crate)
    if ALT:
        src = os.path.join(VERIF, "kani", crate)
        if os.path.exists(d):
            shutil.rmtree(d)
        shutil.copytree(src, d, ignore=shutil.ignore_patterns("target"))
        for dp, _, fs in os.walk(d):
            for f in fs:
                if f == "Cargo.toml":
                    t = open(os.path.join(dp, f)).read().replace('"/repo/', '"%s/' % REPO)
                    open(os.path.join(dp, f), "w").write(t)
    lock = os.path.join(REPO, "Cargo.lock")
    if os.path.exists(lock):
        shutil.copyfile(lock, os.path.join(d, "Cargo.lock"))


_build_locks = {}
_build_locks_guard = threading.Lock()


def _limit(mem_gb):
    def f():
        lim = int(mem_gb * (1 << 30))
        resource.setrlimit(resource.RLIMIT_AS, (lim, lim))
        os.setsid()
    return f


def build(job, log):
    """Compile (codegen only) once per (crate, config); serialised per target dir."""
    key = job.config_key()
    with _build_locks_guard:
        lock = _build_locks.setdefault(key, [threading.Lock(), None])
    with lock[0]:
        if lock[1] is not None:
            return lock[1]
        t0 = time.time()
        cmd = ["cargo", "kani", "--only-codegen", "--target-dir", target_dir(job)]
        if job.stubbing:
            cmd += ["-Z", "stubbing"]
        p = subprocess.run(cmd, cwd=crate_dir(job), env=_env_for(job), stdout=subprocess.PIPE,
                           stderr=subprocess.STDOUT, text=True)
        ok = p.returncode == 0
        with open(log, "w") as f:
            f.write(p.stdout)
        lock[1] = (ok, time.time() - t0, p.stdout[-4000:] if not ok else "")
        return lock[1]


def resolve_unwindset(job):
    """Per-loop bounds: loop ids are read from the harness's GOTO binary (cbmc --show-loops)
    after code generation, and matched by demangled function name."""
    import glob
    short = job.harness.split("::")[-1]
    pats = glob.glob(os.path.join(target_dir(job), "kani", "*", "debug", "build", "*", "*", "out", "*%d%s.out" % (len(short), short)))
    pats = [p for p in pats if not p.endswith(".symtab.out")]
    if not pats:
        return None
    pats.sort(key=os.path.getmtime)
    p = subprocess.run(["cbmc", "--show-loops", pats[-1]], stdout=subprocess.PIPE, stderr=subprocess.DEVNULL, text=True, timeout=600)
    items = []
    for m in re.finditer(r"^Loop (\S+):\n  file .*? function (.*)$", p.stdout, re.M):
        lid, fn = m.group(1), m.group(2)
        for rx, bound in job.unwind_fns.items():
            if re.search(rx, fn):
                items.append("%s:%d" % (lid, bound))
                break
    return ",".join(items) if items else None


CHECK_RE = re.compile(r"^Check (\d+): ([^\n]+)\n\t - Status: (\w+)\n\t - Description: \"(.*?)\"\n\t - Location: ([^\n]*)$", re.M | re.S)


def parse(out):
    checks = []
    for m in CHECK_RE.finditer(out):
        loc = m.group(5)
        fn = ""
        mm = re.search(r" in function (.*)$", loc)
        if mm:
            fn = mm.group(1)
        checks.append({"id": m.group(2), "status": m.group(3), "desc": m.group(4), "loc": loc, "fn": fn})
    res = {"checks": checks}
    m = re.search(r"^VERIFICATION:- (\w+)", out, re.M)
    res["verdict"] = m.group(1) if m else None
    res["oom"] = ("out of memory" in out.lower()) or ("std::bad_alloc" in out) or ("Status: ERROR" in out)
    rt = {}
    for k, v in re.findall(r"^Runtime ([A-Za-z ]+): ([0-9.e+-]+)s", out, re.M):
        rt[k.strip()] = rt.get(k.strip(), 0.0) + float(v)
    res["runtime"] = rt
    res["sat_calls"] = len(re.findall(r"^SAT checker", out, re.M))
    m = re.search(r"Generated (\d+) VCC\(s\), (\d+) remaining", out)
    res["vccs"] = (int(m.group(1)), int(m.group(2))) if m else (0, 0)
    m = re.search(r"(\d+) variables, (\d+) clauses", out)
    res["sat_size"] = (int(m.group(1)), int(m.group(2))) if m else None
    return res


def is_repo_fn(check):
    loc = check["loc"]
    return (REPO.lstrip("/") + "/") in loc or "/repo/" in loc


def classify(job, res, timed_out):
    """Returns (status, reason, failed_checks)."""
    if timed_out:
        return INCONCLUSIVE, "timeout after %ds" % job.timeout, []
    if res["verdict"] is None:
        return INCONCLUSIVE, "no verdict (tool error)", []
    failed = [c for c in res["checks"] if c["status"] == "FAILURE"]
    undet = [c for c in res["checks"] if c["status"] in ("UNDETERMINED", "ERROR")]
    if res["oom"] and not failed:
        return INCONCLUSIVE, "solver out of memory", []
    covers = [c for c in res["checks"] if ".cover." in c["id"]]
    unsat = [c for c in covers if c["status"] != "SATISFIED"]
    allowed = job.covers or set()
    bad_covers = [c for c in unsat if c["desc"] not in allowed]
    unwind = [c for c in failed if "unwinding assertion" in c["desc"]]
    if job.kind == "must_panic":
        # Every input inside the harness precondition must panic in the crate:
        # the only failing checks are the expected panic, and the point after
        # the call is unreachable for every input.
        if unwind:
            return INCONCLUSIVE, "unwinding assertion failed: " + unwind[0]["loc"], unwind
        returned = [c for c in covers if c["desc"] == "call returned normally"]
        if not returned:
            return INCONCLUSIVE, "must_panic harness without its cover", []
        if returned[0]["status"] == "SATISFIED":
            return VIOLATION, "call returned normally for some input that must panic", returned
        exp = re.compile(job.note or ".")
        other = [c for c in failed if not (exp.search(c["desc"]) and is_repo_fn(c))]
        if other:
            return VIOLATION, "unexpected failed checks", other
        if not failed:
            return INCONCLUSIVE, "no panic found and call does not return: vacuous", []
        return PASS, "panics for every input in the precondition", []
    if job.kind == "witness":
        real = [c for c in failed if "reachability witness" not in c["desc"]]
        if unwind:
            return INCONCLUSIVE, "unwinding assertion failed: " + unwind[0]["loc"], unwind
        if real:
            # same code as the main harness, which reports (and replays) them
            return INCONCLUSIVE, "witness twin: other checks fail too (reported by the main harness): " + real[0]["desc"], real
        if not failed:
            return INCONCLUSIVE, "vacuous: end of harness is unreachable", []
        return PASS, "witness reached", []
    if unwind:
        return INCONCLUSIVE, "unwinding assertion failed (bound too small): " + unwind[0]["loc"], unwind
    if failed:
        return VIOLATION, "failed checks", failed
    if undet:
        return INCONCLUSIVE, "undetermined checks", undet
    if res["verdict"] != "SUCCESSFUL":
        return INCONCLUSIVE, "verdict %s without failed checks" % res["verdict"], []
    if bad_covers:
        return INCONCLUSIVE, "vacuity: cover not satisfied: " + "; ".join(c["desc"] for c in bad_covers), bad_covers
    return PASS, "", []


def run_job(job, logdir):
    os.makedirs(logdir, exist_ok=True)
    safe = re.sub(r"[^A-Za-z0-9_.=,-]", "_", job.name)
    blog = os.path.join(logdir, "build-" + job.config_key() + ".log")
    ok, bsecs, btail = build(job, blog)
    if not ok:
        return {"job": job, "status": INCONCLUSIVE, "reason": "harness crate failed to build against /repo: see " + blog,
                "failed": [], "res": {"checks": [], "runtime": {}, "sat_calls": 0, "vccs": (0, 0)}, "wall": bsecs, "log": blog,
                "build_failed": True, "build_tail": btail}
    cmd = ["cargo", "kani", "--harness", job.harness, "--exact", "--target-dir", target_dir(job)]
    if job.stubbing:
        cmd += ["-Z", "stubbing"]
    cmd += list(job.extra_args)
    if job.unwind_fns and not job.unwindset:
        job.unwindset = resolve_unwindset(job)
    if job.kind == "witness" and os.environ.get("VERIF_WITNESS_PLAYBACK"):
        # optional: harvest a concrete end-to-end input as an evidence sample (the trace
        # extraction needs several GB on the larger harnesses, so it is off by default)
        cmd += ["-Z", "concrete-playback", "--concrete-playback=print"]
    if job.unwindset:
        cmd += ["-Z", "unstable-options", "--cbmc-args", "--unwindset", job.unwindset]
    log = os.path.join(logdir, safe + ".log")
    t0 = time.time()
    timed_out = False
    with open(log, "w") as f:
        p = subprocess.Popen(cmd, cwd=crate_dir(job), env=_env_for(job), stdout=f, stderr=subprocess.STDOUT,
                             preexec_fn=_limit(job.mem_gb))
        try:
            p.wait(timeout=job.timeout)
        except subprocess.TimeoutExpired:
            timed_out = True
            try:
                os.killpg(p.pid, 9)
            except ProcessLookupError:
                pass
            p.wait()
    wall = time.time() - t0
    out = open(log, errors="replace").read()
    res = parse(out)
    status, reason, failed = classify(job, res, timed_out)
    sample = None
    if job.kind == "witness":
        sample = witness_sample(out)
    return {"job": job, "status": status, "reason": reason, "failed": failed, "res": res, "wall": wall, "log": log,
            "witness_sample": sample}


def witness_sample(out):
    """Concrete input that reaches the end of the harness (from Kani's concrete playback of the
    witness twin's final assert!(false)): a real case of this run."""
    m = re.search(r"reachability witness[^\n]*\n(.*?)kani::concrete_playback_run", out, re.S)
    if not m:
        return None
    vals = re.findall(r"^\s*// (.+)$", m.group(1), re.M)
    return vals[:64] if vals else None


def run_jobs(jobs, logdir, total_mem_gb=52, max_workers=14):
    """Runs jobs in parallel under a simple memory budget (sum of mem caps)."""
    total_mem_gb = float(os.environ.get("VERIF_TOTAL_MEM_GB", total_mem_gb))
    max_workers = int(os.environ.get("VERIF_WORKERS", max_workers))
    for c in sorted({j.crate for j in jobs}):
        prepare_crate(c)
    results = [None] * len(jobs)
    cond = threading.Condition()
    used = [0.0]

    def worker(i, job):
        need = min(job.mem_gb, total_mem_gb)
        with cond:
            while used[0] + need > total_mem_gb and used[0] > 0:
                cond.wait()
            used[0] += need
        try:
            results[i] = run_job(job, logdir)
        except Exception as e:  # tool failure is never a pass
            results[i] = {"job": job, "status": INCONCLUSIVE, "reason": "runner error: %r" % (e,), "failed": [],
                          "res": {"checks": [], "runtime": {}, "sat_calls": 0, "vccs": (0, 0)}, "wall": 0.0, "log": ""}
        finally:
            with cond:
                used[0] -= need
                cond.notify_all()

    with ThreadPoolExecutor(max_workers=max_workers) as ex:
        # heavy jobs first
        order = sorted(range(len(jobs)), key=lambda i: -jobs[i].timeout)
        for i in order:
            ex.submit(worker, i, jobs[i])
    return results


# ---------------------------------------------------------------------------
# Replay: Kani concrete playback in a scratch copy of the harness crate,
# executed natively against /repo (dev profile, then release).

def replay(job, replay_root):
    """Kani concrete playback (print mode) -> unit tests appended to a scratch copy of the harness
    crate -> executed natively against /repo.  Returns (reproduced: bool|None, artifact_dir, detail)."""
    safe = re.sub(r"[^A-Za-z0-9_.=,-]", "_", job.name)
    art = os.path.join(replay_root, safe)
    if os.path.exists(art):
        shutil.rmtree(art)
    os.makedirs(replay_root, exist_ok=True)
    shutil.copytree(crate_dir(job), art, ignore=shutil.ignore_patterns("target"))
    env = _env_for(job)
    cmd = ["cargo", "kani", "-Z", "concrete-playback", "--concrete-playback=print", "--harness", job.harness,
           "--exact", "--target-dir", target_dir(job)]
    if job.stubbing:
        cmd += ["-Z", "stubbing"]
    cmd += list(job.extra_args)
    if job.unwindset:
        cmd += ["-Z", "unstable-options", "--cbmc-args", "--unwindset", job.unwindset]
    p = subprocess.run(cmd, cwd=crate_dir(job), env=env, stdout=subprocess.PIPE, stderr=subprocess.STDOUT, text=True,
                       preexec_fn=_limit(max(job.mem_gb * 3, 48)), timeout=job.timeout * 2 + 600)  # kani-driver needs far more memory than CBMC to turn a long trace into a test
    open(os.path.join(art, "playback-gen.log"), "w").write(p.stdout)
    blocks = re.findall(r"((?:///[^\n]*\n|\n)*#\[test\]\nfn (kani_concrete_playback_\w+)\(\) \{.*?\n\}\n)", p.stdout, re.S)
    tests, code = [], []
    for text, name in blocks:
        if "Check for `cover`" in text:
            continue  # satisfied covers are reachability witnesses, not failures
        if name in tests:
            continue
        tests.append(name)
        code.append(text)
    meta = {"harness": job.harness, "env": job.env, "cfgs": job.cfgs, "tests": tests, "crate": job.crate}
    json.dump(meta, open(os.path.join(art, "replay.json"), "w"), indent=1)
    if not tests:
        return None, art, "concrete playback produced no test"
    mod = job.harness.split("::")[0]
    path = os.path.join(art, "src", mod + ".rs")
    with open(path, "a") as f:
        f.write("\n// ---- generated by Kani concrete playback (solver counterexample) ----\n")
        f.write("\n".join(code))
    return run_replay(art)


def run_replay(art):
    meta = json.load(open(os.path.join(art, "replay.json")))
    env = dict(os.environ)
    env["CARGO_NET_OFFLINE"] = "true"
    flags = env.get("RUSTFLAGS", "")
    for c in meta["cfgs"]:
        flags += " --cfg " + c
    if flags.strip():
        env["RUSTFLAGS"] = flags.strip()
    else:
        env.pop("RUSTFLAGS", None)
    env.update(meta["env"])
    env["CARGO_TARGET_DIR"] = os.path.join(WORK, "target", "playback-" + meta["crate"])
    lock = os.path.join(REPO, "Cargo.lock")
    if os.path.exists(lock):
        shutil.copyfile(lock, os.path.join(art, "Cargo.lock"))
    detail = []
    reproduced = False
    # `cargo kani playback` only supports the dev profile (which is what Kani models).
    for profile in ([],):
        cmd = ["cargo", "kani", "playback", "-Z", "concrete-playback"] + profile + ["--"] + ["kani_concrete_playback"]
        p = subprocess.run(cmd, cwd=art, env=env, stdout=subprocess.PIPE, stderr=subprocess.STDOUT, text=True, timeout=1800)
        tag = "release" if profile else "dev"
        open(os.path.join(art, "playback-%s.log" % tag), "w").write(p.stdout)
        failed = re.findall(r"^test (\S+) \.\.\. FAILED", p.stdout, re.M)
        if "error: could not compile" in p.stdout or ("test result:" not in p.stdout):
            detail.append("%s: playback did not build/run (see playback-%s.log)" % (tag, tag))
            continue
        m = re.search(r"panicked at ([^\n]*)\n([^\n]*)", p.stdout)
        detail.append("%s: %s%s" % (tag, "reproduced (" + ", ".join(failed) + ")" if failed else "did not fail",
                                    (" — " + m.group(1) + " " + m.group(2)) if m and failed else ""))
        if failed:
            reproduced = True
    return reproduced, art, "; ".join(detail)
