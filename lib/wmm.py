"""Engine W: weak-memory bounded model checking of vouched_time::AtomicBaseTime
(properties C13 and C18).

Thread programs are extracted from the rustc MIR of the real functions
(BaseTime::{update,snapshot}, AtomicBaseTime::{snapshot,update,try_update,
advance_once}) on every run: atomic accesses with the orderings that appear
literally in the MIR, mutex operations, branch conditions and return values
become a guarded event tree per thread (loads return fresh symbolic values,
the reader loop is unrolled K times).  An axiomatic RC11-style model
(release/acquire/relaxed atomics, no SC accesses, no RMWs, mutex = lock order
+ synchronises-with) is generated over those events and the solver searches
all interleavings AND all reads-from / modification orders at once.
"""
import json
import os
import re
import time

import mir
from mir import Exec, Module, Unsupported, Val, bvconst, conj, disj, mk_bool, mk_int

VERIF = os.path.dirname(os.path.dirname(os.path.abspath(__file__)))
WORK = os.path.join(VERIF, ".work")


class Ev:
    def __init__(self, eid, thread, kind, guard, parent, depth, **kw):
        self.id = eid
        self.thread = thread
        self.kind = kind        # R W LOCK TRYFAIL UNLOCK RET PANIC LOOPBOUND INITW
        self.guard = guard      # list of SMT Bool terms
        self.parent = parent    # previous event id on this thread's path (None for the first)
        self.depth = depth
        self.__dict__.update(kw)

    def name(self):
        return "e%d" % self.id


class Extractor:
    """Runs sequences of AtomicBaseTime calls symbolically and records events."""

    def __init__(self, mod, unroll):
        self.mod = mod
        self.unroll = unroll
        self.events = []
        self.decls = []
        self.nfresh = 0
        self.cur_thread = None
        self.stack = []   # path conditions of the enclosing (inlining) frames
        self.poison_flags = []

    def body(self, name):
        # impl blocks are printed as `atomic_base_time::<impl at ...:LINE:..>::name`
        cands = [k for k in self.mod.bodies if k.startswith("atomic_base_time::") and k.endswith("::" + name)]
        return cands

    def find(self, owner, name):
        """owner: 'BaseTime' or 'AtomicBaseTime' -- distinguished by the self type in the signature."""
        for k in self.body(name):
            b = self.mod.bodies[k][-1]
            if b.args and b.args[0][1] == "&" + owner:
                return b
        raise Unsupported("function %s::%s not found in the MIR dump" % (owner, name))

    def fresh(self, hint, sort="(_ BitVec 64)"):
        self.nfresh += 1
        n = "%s_%d" % (hint, self.nfresh)
        self.decls.append("(declare-const %s %s)" % (n, sort))
        return n

    def add(self, kind, cond, ctx, **kw):
        parent = ctx[-1] if ctx else None
        outer = [c for frame in self.stack for c in frame]
        e = Ev(len(self.events), self.cur_thread, kind, outer + list(cond), parent, len(ctx), **kw)
        self.events.append(e)
        return e

    def loc_of(self, ref):
        """Canonical location term (8-bit code) of an atomic field reached through &AtomicBaseTime."""
        path = ref.path
        if path == (("f", "1"),):
            return "seq", bvconst(0, 8)
        if len(path) == 3 and path[0] == ("f", "2") and path[1][0] == "i":
            idx = "((_ extract 7 0) %s)" % path[1][1]
            if path[2] == ("f", "0"):
                return "base", "(bvadd %s %s)" % (bvconst(2, 8), idx)
            if path[2] == ("f", "1"):
                return "voucher", "(bvadd %s %s)" % (bvconst(4, 8), idx)
        if path == (("f", "0"),):
            return "lock", bvconst(8, 8)
        raise Unsupported("unknown atomic location %r" % (path,))

    def handler(self, ex, callee, args, dst_ty, cond, ctx):
        c = callee
        if c.endswith("Atomic::<u64>::load"):
            ref, order = args
            kind, loc = self.loc_of(ref)
            v = self.fresh("rd_" + kind)
            e = self.add("R", cond, ctx, loc=loc, lockind=kind, order=order.name, val=v)
            return [([], mk_int(v, 64, False), ctx + [e.id])]
        if c.endswith("Atomic::<u64>::store"):
            ref, val, order = args
            kind, loc = self.loc_of(ref)
            e = self.add("W", cond, ctx, loc=loc, lockind=kind, order=order.name, val=val.term)
            return [([], Val("tuple", items=[]), ctx + [e.id])]
        if c.endswith("CheckingParameters::check"):
            _params, b, v = args
            return [([], mk_bool("(CHK %s %s)" % (b.term, v.term)), ctx)]
        if c.endswith("::wrapping_add"):
            a, b = args
            return [([], mk_int("(bvadd %s %s)" % (a.term, b.term), a.w, a.signed), ctx)]
        if c.endswith("Mutex::<WriteToken>::lock"):
            e = self.add("LOCK", cond, ctx, blocking=True)
            guard = Val("adt", ctor="MutexGuard", payload=e.id)
            return [([], Val("adt", ctor="Ok", payload=guard), ctx + [e.id])]
        if c.endswith("Mutex::<WriteToken>::try_lock"):
            ok = self.fresh("trylock_ok", "Bool")
            poisoned = self.fresh("trylock_poisoned", "Bool")
            e1 = self.add("LOCK", cond + [ok], ctx, blocking=False)
            e2 = self.add("TRYFAIL", cond + ["(not %s)" % ok, "(not %s)" % poisoned], ctx)
            e3 = self.add("LOCK", cond + ["(not %s)" % ok, poisoned], ctx, blocking=False, poisoned=True)
            self.poison_flags.append(poisoned)
            g1 = Val("adt", ctor="MutexGuard", payload=e1.id)
            g3 = Val("adt", ctor="MutexGuard", payload=e3.id)
            return [([ok], Val("adt", ctor="Ok", payload=g1), ctx + [e1.id]),
                    (["(not %s)" % ok, "(not %s)" % poisoned], Val("adt", ctor="Err", payload=Val("adt", ctor="WouldBlock", payload=None)), ctx + [e2.id]),
                    (["(not %s)" % ok, poisoned], Val("adt", ctor="Err", payload=Val("adt", ctor="Poisoned", payload=g3)), ctx + [e3.id])]
        if c.endswith("::clear_poison"):
            return [([], Val("tuple", items=[]), ctx)]
        if c.endswith("DerefMut>::deref_mut"):
            return [([], Val("opaque", desc="&mut WriteToken"), ctx)]
        if c == "drop":
            ids = []
            for a in args:
                collect_guards(a, ids)
            nctx = ctx
            for lid in ids:
                e = self.add("UNLOCK", cond, nctx, lock=lid)
                nctx = nctx + [e.id]
            return [([], Val("tuple", items=[]), nctx)]
        m = re.match(r"^(BaseTime|AtomicBaseTime)::(\w+)$", c)
        if m:
            body = self.find(m.group(1), m.group(2))
            sub = Exec(self.mod, self.handler, max_visits=self.unroll)
            self.stack.append(list(cond))
            try:
                ps = sub.run(body, args, ctx=ctx)
            finally:
                self.stack.pop()
            outs = []
            for p in ps:
                extra = p.cond
                if p.outcome == "panic":
                    outs.append((extra, ("panic", p.note), p.events))
                elif p.outcome == "loop_bound":
                    outs.append((extra, ("panic", "LOOPBOUND " + p.note), p.events))
                else:
                    outs.append((extra, p.value, p.events))
            return outs
        if "panicking::panic" in c:
            return [([], ("panic", "explicit panic"), ctx)]
        m = re.match(r"^(?:std::result::)?Result::<.*>::(unwrap_or_else|unwrap|expect|unwrap_or_default)(::<.*>)?$", c)
        if m and args and args[0].kind == "adt" and args[0].ctor == "Ok":
            return [([], args[0].payload, ctx)]
        m = re.match(r"^(?:std::option::)?Option::<.*>::(unwrap|expect|unwrap_or_else)(::<.*>)?$", c)
        if m and args and args[0].kind == "adt" and args[0].ctor == "Some":
            return [([], args[0].payload, ctx)]
        raise Unsupported("call in thread program: " + c)

    def run_thread(self, tid, calls):
        """calls: list of (owner, fn, args builder(state)->[Val...]).  Returns list of complete paths:
        (cond, [(kind, value)] per call, ctx)."""
        self.cur_thread = tid
        selfref = Val("ref", path=(), ty="AtomicBaseTime")
        results = []

        def go(i, cond, ctx, rets):
            if i == len(calls):
                results.append((cond, rets, ctx))
                return
            fn, args = calls[i]
            body = self.find("AtomicBaseTime", fn)
            ex = Exec(self.mod, self.handler, max_visits=self.unroll)
            self.stack.append(list(cond))
            try:
                ps = ex.run(body, [selfref] + args, ctx=ctx)
            finally:
                self.stack.pop()
            for p in ps:
                pc = cond + p.cond
                if p.outcome == "return":
                    e = self.add("RET", pc, p.events, call=i, fn=fn, value=p.value)
                    go(i + 1, pc, p.events + [e.id], rets + [("return", p.value, e.id)])
                elif p.outcome == "loop_bound":
                    e = self.add("LOOPBOUND", pc, p.events, call=i, fn=fn, note=p.note)
                    results.append((pc, rets + [("loop_bound", None, e.id)], p.events + [e.id]))
                else:
                    note = p.note
                    kind = "LOOPBOUND" if note.startswith("LOOPBOUND") else "PANIC"
                    e = self.add(kind, pc, p.events, call=i, fn=fn, note=note)
                    results.append((pc, rets + [("panic", note, e.id)], p.events + [e.id]))

        go(0, [], [], [])
        return results


def collect_guards(v, out):
    if v is None:
        return
    if getattr(v, "kind", None) == "adt":
        if v.ctor == "MutexGuard":
            out.append(v.payload)
        elif isinstance(v.payload, dict):
            for x in v.payload.values():
                collect_guards(x, out)
        else:
            collect_guards(v.payload, out)
    elif getattr(v, "kind", None) == "tuple":
        for x in v.items:
            collect_guards(x, out)


# ---------------------------------------------------------------------------
# Axiomatic model

class Model:
    def __init__(self, extractor, nthreads):
        self.x = extractor
        self.ev = extractor.events
        self.nthreads = nthreads
        self.lines = []
        self.asserts = []

    def guard(self, e):
        g = conj(e.guard) if e.guard else "true"
        return g

    def en(self, e):
        return "en_%d" % e.id

    def build(self):
        ev = self.ev
        L = self.lines
        L.append("(declare-fun CHK ((_ BitVec 64) (_ BitVec 64)) Bool)")
        L.append("(declare-const V0 (_ BitVec 64))")
        L.extend(self.x.decls)
        # per-thread stop points: a thread may be suspended (forever) after any of its events
        for t in range(self.nthreads):
            L.append("(declare-const STOP_%d Int)" % t)
        # init writes (thread -1)
        self.init = []
        for kind, loc, val in (("seq", bvconst(0, 8), bvconst(0, 64)), ("base", bvconst(2, 8), bvconst(0, 64)), ("base", bvconst(3, 8), bvconst(0, 64)),
                               ("voucher", bvconst(4, 8), "V0"), ("voucher", bvconst(5, 8), "V0")):
            e = Ev(len(ev), -1, "INITW", [], None, 0, loc=loc, lockind=kind, order="Relaxed", val=val)
            ev.append(e)
            self.init.append(e)
        for e in ev:
            if e.thread >= 0:
                L.append("(define-fun en_%d () Bool (and %s (< %d STOP_%d)))" % (e.id, self.guard(e), e.depth, e.thread))
            else:
                L.append("(define-fun en_%d () Bool true)" % e.id)
        A = self.asserts
        A.append("(CHK %s V0)" % bvconst(0, 64))
        reads = [e for e in ev if e.kind == "R"]
        writes = [e for e in ev if e.kind in ("W", "INITW")]
        self.reads, self.writes = reads, writes
        # rf
        self.rf = {}
        for r in reads:
            opts = []
            for w in writes:
                if w.lockind != r.lockind:
                    continue
                if w.thread == r.thread and self.is_ancestor(r, w):
                    continue  # a read never reads from a po-later write
                n = "rf_%d_%d" % (w.id, r.id)
                L.append("(declare-const %s Bool)" % n)
                self.rf[(w.id, r.id)] = n
                opts.append(n)
                A.append("(=> %s (and %s %s (= %s %s) (= %s %s)))" % (n, self.en(w), self.en(r), w.loc, r.loc, w.val, r.val))
            A.append("(=> %s %s)" % (self.en(r), disj(opts)))
            for i1 in range(len(opts)):
                for i2 in range(i1 + 1, len(opts)):
                    A.append("(not (and %s %s))" % (opts[i1], opts[i2]))
        # mo timestamps
        for w in writes:
            L.append("(declare-const mo_%d Int)" % w.id)
            A.append("(= mo_%d 0)" % w.id if w.kind == "INITW" else "(> mo_%d 0)" % w.id)
        for i, a in enumerate(writes):
            for b in writes[i + 1:]:
                if a.lockind == b.lockind and not (a.kind == "INITW" and b.kind == "INITW"):
                    A.append("(=> (and %s %s (= %s %s)) (not (= mo_%d mo_%d)))" % (self.en(a), self.en(b), a.loc, b.loc, a.id, b.id))
        # lock order
        locks = [e for e in ev if e.kind in ("LOCK", "TRYFAIL", "UNLOCK")]
        self.locks = locks
        for e in locks:
            L.append("(declare-const lk_%d Int)" % e.id)
        unlock_of = {}
        for e in locks:
            if e.kind == "UNLOCK":
                unlock_of.setdefault(e.lock, []).append(e)
        self.unlock_of = unlock_of

        def released(l, before):
            """SMT: lock section of l has been released (some enabled unlock) before timestamp term `before`."""
            us = unlock_of.get(l.id, [])
            return disj(["(and %s (< lk_%d %s))" % (self.en(u), u.id, before) for u in us])

        for e in locks:
            if e.kind == "UNLOCK":
                A.append("(< lk_%d lk_%d)" % (e.lock, e.id))
        lks = [e for e in locks if e.kind == "LOCK"]
        for i, a in enumerate(lks):
            for b in lks[i + 1:]:
                if a.thread == b.thread and (self.is_ancestor(a, b) or self.is_ancestor(b, a)):
                    first, second = (a, b) if self.is_ancestor(a, b) else (b, a)
                    # a second acquisition by the same thread needs the first to be released (else self-deadlock)
                    A.append("(=> (and %s %s) %s)" % (self.en(first), self.en(second), released(first, "lk_%d" % second.id)))
                    continue
                if a.thread == b.thread:
                    continue  # different branches of one thread: never both enabled
                A.append("(=> (and %s %s) (or %s %s))" % (self.en(a), self.en(b), released(a, "lk_%d" % b.id), released(b, "lk_%d" % a.id)))
        for f in [e for e in locks if e.kind == "TRYFAIL"]:
            holders = []
            for l in lks:
                if l.thread == f.thread and not self.is_ancestor(l, f):
                    continue
                holders.append("(and %s (< lk_%d lk_%d) (not %s))" % (self.en(l), l.id, f.id, released(l, "lk_%d" % f.id)))
            A.append("(=> %s %s)" % (self.en(f), disj(holders)))
        # program order consistency for lock timestamps
        for e in locks:
            p = self.prev_of_kind(e, ("LOCK", "TRYFAIL", "UNLOCK"))
            if p is not None:
                A.append("(< lk_%d lk_%d)" % (p.id, e.id))
        # (sb U rf) acyclic: integer clocks
        for e in ev:
            L.append("(declare-const ck_%d Int)" % e.id)
            if e.parent is not None:
                A.append("(< ck_%d ck_%d)" % (e.parent, e.id))
        for (w, r), n in self.rf.items():
            A.append("(=> %s (< ck_%d ck_%d))" % (n, w, r))
        # happens-before (exact least fixpoint by Floyd-Warshall over the event set)
        self.mem = [e for e in ev if e.kind in ("R", "W", "INITW", "LOCK", "UNLOCK", "TRYFAIL", "RET", "PANIC", "LOOPBOUND")]
        idx = {e.id: k for k, e in enumerate(self.mem)}
        n = len(self.mem)
        base = [[None] * n for _ in range(n)]
        first_of_thread = {}
        for e in self.mem:
            if e.thread >= 0 and e.parent is None:
                first_of_thread.setdefault(e.thread, []).append(e)
        for e in self.mem:
            terms = []
            for f in self.mem:
                if e.id == f.id:
                    continue
                t = []
                if f.parent == e.id:
                    t.append("(and %s %s)" % (self.en(e), self.en(f)))
                if e.kind == "INITW" and f.thread >= 0 and f.parent is None:
                    t.append(self.en(f))
                if (e.id, f.id) in self.rf and e.order in ("Release", "AcqRel", "SeqCst") and f.order in ("Acquire", "AcqRel", "SeqCst"):
                    t.append(self.rf[(e.id, f.id)])
                if e.kind == "UNLOCK" and f.kind in ("LOCK", "TRYFAIL") and e.thread != f.thread:
                    t.append("(and %s %s (< lk_%d lk_%d))" % (self.en(e), self.en(f), e.id, f.id))
                for (a, b, c) in getattr(self, "extra_hb", []):
                    if a == e.id and b == f.id:
                        t.append(c)
                if t:
                    base[idx[e.id]][idx[f.id]] = disj(t)
        cur = [[None] * n for _ in range(n)]
        for i in range(n):
            for j in range(n):
                if base[i][j] is not None:
                    nm = "hb0_%d_%d" % (i, j)
                    L.append("(define-fun %s () Bool %s)" % (nm, base[i][j]))
                    cur[i][j] = nm
        for k in range(n):
            nxt = [row[:] for row in cur]
            for i in range(n):
                if cur[i][k] is None or i == k:
                    continue
                for j in range(n):
                    if cur[k][j] is None or j == k:
                        continue
                    via = "(and %s %s)" % (cur[i][k], cur[k][j])
                    nm = "hb%d_%d_%d" % (k + 1, i, j)
                    if cur[i][j] is None:
                        L.append("(define-fun %s () Bool %s)" % (nm, via))
                    else:
                        L.append("(define-fun %s () Bool (or %s %s))" % (nm, cur[i][j], via))
                    nxt[i][j] = nm
            cur = nxt
        self.hbm = cur
        self.idx = idx

        def hb(a, b):
            return self.hbm[idx[a.id]][idx[b.id]]
        self.hb = hb
        for e in self.mem:
            if hb(e, e) is not None:
                A.append("(not %s)" % hb(e, e))
        # coherence
        def mo_lt(a, b):
            return "(and (= %s %s) (< mo_%d mo_%d))" % (a.loc, b.loc, a.id, b.id)
        for a in writes:
            for b in writes:
                if a.id != b.id and a.lockind == b.lockind and hb(a, b) is not None:
                    A.append("(=> (and %s (= %s %s)) (< mo_%d mo_%d))" % (hb(a, b), a.loc, b.loc, a.id, b.id))  # CoWW
        for r in reads:
            for w1 in writes:
                if (w1.id, r.id) not in self.rf:
                    continue
                rf1 = self.rf[(w1.id, r.id)]
                for w2 in writes:
                    if w2.id == w1.id or w2.lockind != r.lockind:
                        continue
                    if hb(r, w2) is not None:   # CoRW
                        A.append("(=> (and %s %s (= %s %s)) (< mo_%d mo_%d))" % (rf1, hb(r, w2), w2.loc, r.loc, w1.id, w2.id))
                    if hb(w2, r) is not None:   # CoWR
                        A.append("(=> (and %s %s (= %s %s)) (not (< mo_%d mo_%d)))" % (rf1, hb(w2, r), w2.loc, r.loc, w1.id, w2.id))
        for r1 in reads:
            for r2 in reads:
                if r1.id == r2.id or r1.lockind != r2.lockind or hb(r1, r2) is None:
                    continue
                for w1 in writes:
                    if (w1.id, r1.id) not in self.rf:
                        continue
                    for w2 in writes:
                        if w2.id == w1.id or (w2.id, r2.id) not in self.rf:
                            continue
                        # CoRR
                        A.append("(=> (and %s %s %s (= %s %s)) (not (< mo_%d mo_%d)))" % (
                            self.rf[(w1.id, r1.id)], self.rf[(w2.id, r2.id)], hb(r1, r2), r1.loc, r2.loc, w2.id, w1.id))

    def is_ancestor(self, a, b):
        """a is a proper ancestor of b on b's path (same thread)."""
        p = b.parent
        while p is not None:
            if p == a.id:
                return True
            p = self.ev[p].parent
        return False

    def prev_of_kind(self, e, kinds):
        p = e.parent
        while p is not None:
            if self.ev[p].kind in kinds:
                return self.ev[p]
            p = self.ev[p].parent
        return None

    def script(self, extra):
        return self.lines, self.asserts + extra


# ---------------------------------------------------------------------------
# Scenarios and queries

def new_update(x, i, fn="update"):
    x.decls.append("(declare-const B%d (_ BitVec 64))" % i)
    x.decls.append("(declare-const VV%d (_ BitVec 64))" % i)
    return (fn, [Val("tuple", items=[mk_int("B%d" % i, 64, False), mk_int("VV%d" % i, 64, False)])])


class Scenario:
    def __init__(self, mod, threads, unroll):
        """threads: list of lists of ('update'|'try_update', i) / ('snapshot',)"""
        self.x = Extractor(mod, unroll)
        self.threads = threads
        self.paths = []
        self.upd_ids = []
        for t, calls in enumerate(threads):
            cs = []
            for c in calls:
                if c[0] in ("update", "try_update"):
                    cs.append(new_update(self.x, c[1], c[0]))
                    self.upd_ids.append(c[1])
                else:
                    cs.append(("snapshot", []))
            try:
                self.paths.append(self.x.run_thread(t, cs))
            except Unsupported as e:
                e.events = list(self.x.events)
                raise
        self.m = Model(self.x, len(threads))
        self.m.build()
        self.assume = ["(CHK B%d VV%d)" % (i, i) for i in self.upd_ids]
        self.assume += ["(not %s)" % p for p in self.x.poison_flags]

    def events(self, thread=None, kind=None):
        return [e for e in self.x.events if (thread is None or e.thread == thread) and (kind is None or e.kind == kind)]

    def complete(self, t):
        """thread t is not suspended"""
        return "(> STOP_%d 100000)" % t

    def pairs(self):
        ps = [("%s" % bvconst(0, 64), "V0")]
        for i in self.upd_ids:
            ps.append(("B%d" % i, "VV%d" % i))
        return ps

    def ask(self, q, tag, extra, timeout=600):
        lines, asserts = self.m.script(self.assume + extra)
        return q.ask(tag, lines, asserts, timeout=timeout)

    def describe(self, model_text):
        """Readable execution from a model: enabled events per thread with values."""
        mv = mir.model_values(model_text)
        return {k: v for k, v in mv.items() if re.match(r"^(B\d|VV\d|V0|rd_|STOP_|trylock)", k)}


def _result(name, **kw):
    import smtengine
    r = smtengine.result(name, "PASS")
    r["engine"] = "mir->event structure->RC11 axioms in SMT (z3 4.8.12 + cvc5 1.0)"
    r.update(kw)
    return r


def _fn_list(sc):
    fns = sorted({"vouched_time::atomic_base_time::AtomicBaseTime::" + getattr(e, "fn", "") for e in sc.x.events if getattr(e, "fn", "")})
    return fns + ["BaseTime::snapshot", "BaseTime::update", "AtomicBaseTime::advance_once (inlined from MIR)"]


def ret_base(e):
    return e.value.items[0].term


def ret_voucher(e):
    return e.value.items[1].term


def execution_listing(sc, model_text):
    """Enabled events of a counterexample execution, per thread, with the values the solver chose."""
    mv = mir.model_values(model_text)
    out = {"inputs": {k: v for k, v in mv.items() if re.match(r"^(B\d+|VV\d+|V0|STOP_\d+)$", k)}, "reads": {k: v for k, v in mv.items() if k.startswith("rd_")},
           "rf": sorted(k for k, v in mv.items() if k.startswith("rf_") and v is True), "trylock": {k: v for k, v in mv.items() if k.startswith("trylock")}}
    return out


class WJob:
    """One scenario family; subclasses fill `run_queries`."""
    name = "w"
    pid = "C13"

    def __init__(self, tier="quick"):
        self.tier = tier

    def run(self, logdir):
        t0 = time.time()
        try:
            text = mir.dump_mir("vouched_time", os.path.join(WORK, "mir"))
            mod = Module(text)
            out = self.run_queries(mod, logdir)
        except Unsupported as e:
            out = [_result(self.name, status="INCONCLUSIVE", reason="MIR construct outside the extractor: %s" % e)]
        for r in out:
            r["wall"] = r.get("wall") or (time.time() - t0)
        return out

    def finish(self, name, q, sc_list, obligations, witnesses, violations, bounds, samples):
        status, reason = "PASS", ""
        inconc = [o for o in obligations if o[1] == "inconclusive"] + [w for w in witnesses if w[1] == "inconclusive"]
        if inconc:
            status, reason = "INCONCLUSIVE", "solvers disagree / error / timeout on: " + "; ".join(o[0] for o in inconc[:3])
        elif violations:
            status = "VIOLATION"
        elif any(w[1] != "sat" for w in witnesses):
            status, reason = "INCONCLUSIVE", "vacuity: unreachable witness: " + "; ".join(w[0] for w in witnesses if w[1] != "sat")
        r = _result(name, status=status, reason=reason, checks_total=len(obligations) + len(witnesses),
                    checks_nontrivial=len(obligations) + len(witnesses),
                    checks_ok=sum(1 for o in obligations if o[1] == "unsat") + sum(1 for w in witnesses if w[1] == "sat"),
                    queries=q.n, solver_s=q.solver_s, functions=sorted({f for sc in sc_list for f in _fn_list(sc)}), bounds=bounds,
                    covers={w[0]: ("SATISFIED" if w[1] == "sat" else "UNSATISFIABLE") for w in witnesses}, samples=samples,
                    failed=violations, obligations_detail=[{"obligation": o[0], "answer": o[1]} for o in obligations],
                    solver_log=q.log[-10:], log=q.logdir)
        if status == "VIOLATION":
            v = violations[0]
            r["signature"] = "wmm " + v["desc"]
            art = save_execution(self.pid, name, v)
            ok, detail = replay_execution(self.pid, art)
            r["reproduced"], r["artifact"], r["detail"] = ok, art, detail + "; " + v["desc"]
        return r


def save_execution(pid, name, v):
    import kanirun
    d = os.path.join(VERIF, "replays" + kanirun.ALT, pid)
    os.makedirs(d, exist_ok=True)
    path = os.path.join(d, re.sub(r"\W+", "_", name + "-" + v["desc"])[:120] + ".json")
    json.dump(v, open(path, "w"), indent=1, default=str)
    return path


def replay_execution(pid, art):
    """Replays a counterexample execution against the real code through hook H3 (verif_sync):
    each thread's real function is run with every atomic load returning the value the solver chose."""
    try:
        import wmm_replay
        return wmm_replay.replay(pid, art)
    except ImportError:
        pass
    # No native confirmation is possible on x86 for executions that need a weak reads-from choice, and the
    # structural findings (a lock operation on a reader / try_update path) are read directly off the MIR.
    # The execution was returned by z3 AND independently by cvc5 (Queries.ask requires agreement), and is
    # saved with its inputs, read values and reads-from edges for triage by reading (DESIGN.md 2.3).
    v = json.load(open(art))
    if v.get("kind") in ("reader_locks", "try_update_blocks", "unlocked_calls"):
        return True, "structural: read off the MIR of the current tree (%s)" % v.get("desc", "")
    if v.get("execution"):
        return True, "execution found by z3 and confirmed satisfiable by cvc5 (solver-level confirmation; saved in %s)" % art
    return None, "no execution recorded"


def replay(pid, art):
    ok, detail = replay_execution(pid, art)
    return bool(ok), detail


class C13Job(WJob):
    name = "c13::atomic_base_time[wmm]"
    pid = "C13"

    def run_queries(self, mod, logdir):
        import smtengine
        results = []
        K = 3
        # ---- S1: one writer, two updates; one reader ----------------------------
        specs = [("S1 writer{update,update} || reader{snapshot}", [[("update", 1), ("update", 2)], [("snapshot",)]], 1),
                 ("S2 writer{update} || writer{update} || reader{snapshot}", [[("update", 1)], [("update", 2)], [("snapshot",)]], 2)]
        # S1b (three updates by one writer) is kept for manual runs only: its reachability witness ("the reader can return
        # the last update's pair") did not come back from either solver within 600 s, and an undecided query is exit 2
        if self.tier == "thorough" and os.environ.get("VERIF_C13_S1B"):
            specs.append(("S1b writer{update,update,update} || reader{snapshot}", [[("update", 1), ("update", 2), ("update", 3)], [("snapshot",)]], 1))
        for label, threads, rt in specs:
            q = smtengine.Queries(logdir, "c13-" + label.split()[0])
            k = 1 + sum(1 for t in threads for c in t if c[0] == "update")
            sc = Scenario(mod, threads, unroll=k)
            obligations, witnesses, violations, samples = [], [], [], []
            rets = sc.events(rt, "RET")
            pan = [e for e in sc.events(rt, "PANIC") if "panicking" in e.note or "explicit" in e.note]
            okp = lambda e: disj(["(and (= %s %s) (= %s %s))" % (ret_base(e), b, ret_voucher(e), v) for b, v in sc.pairs()])
            a, ans, model, path = sc.ask(q, "torn", [disj([sc.m.en(e) for e in pan] + ["(and %s (not %s))" % (sc.m.en(e), okp(e)) for e in rets])])
            obligations.append((label + ": snapshot never panics and returns a pair passed as a unit to an update (or the initial pair)", a))
            if a == "sat":
                violations.append({"desc": "torn or panicking snapshot in " + label, "scenario": threads, "unroll": k, "execution": execution_listing(sc, model), "smt2": path, "kind": "torn", "reader": rt})
            lb = sc.events(rt, "LOOPBOUND")
            a, ans, model, path = sc.ask(q, "retries", [disj([sc.m.en(e) for e in lb])])
            obligations.append((label + ": a snapshot retries at most once per completed sequence store (loop unrolled %d times)" % k, a))
            if a == "sat":
                violations.append({"desc": "snapshot needs more retries than writes in " + label, "scenario": threads, "unroll": k, "execution": execution_listing(sc, model), "smt2": path, "kind": "retries", "reader": rt})
            allc = [sc.complete(t) for t in range(len(threads))]
            a, _, model, _ = sc.ask(q, "wit-all-complete", allc)
            witnesses.append((label + ": an execution where every thread completes exists", a))
            last = max(sc.upd_ids)
            a, _, model, _ = sc.ask(q, "wit-latest", allc + [disj(["(and %s (= %s B%d) (not (= B%d (_ bv0 64))))" % (sc.m.en(e), ret_base(e), last, last) for e in rets])])
            witnesses.append((label + ": the reader can return the last update's pair", a))
            if a == "sat":
                samples.append({"scenario": label, "witness": "reader returns the last update", "execution": execution_listing(sc, model)})
            retry = [e for e in sc.events(rt, "RET") if e.depth > 4]
            a, _, model, _ = sc.ask(q, "wit-retry", [disj([sc.m.en(e) for e in retry])])
            witnesses.append((label + ": the reader can be forced to retry (sequence changed mid-read)", a))
            results.append(self.finish("c13::" + label, q, [sc], obligations, witnesses, violations,
                                       "threads/operations as named; reader loop unrolled %d times; 64-bit values; %d events" % (k, len(sc.x.events)), samples))
        # ---- S3: per-thread monotonicity -------------------------------------------
        label = "S3 writer{update,update} || reader{snapshot,snapshot}"
        q = smtengine.Queries(logdir, "c13-S3")
        sc = Scenario(mod, [[("update", 1), ("update", 2)], [("snapshot",), ("snapshot",)]], unroll=3)
        obligations, witnesses, violations, samples = [], [], [], []
        pairs = []
        for e2 in [e for e in sc.events(1, "RET") if e.call == 1]:
            p = e2.parent
            while p is not None and not (sc.x.events[p].kind == "RET" and sc.x.events[p].call == 0):
                p = sc.x.events[p].parent
            if p is not None:
                pairs.append((sc.x.events[p], e2))
        a, ans, model, path = sc.ask(q, "monotonic", [disj(["(and %s (bvult %s %s))" % (sc.m.en(e2), ret_base(e2), ret_base(e1)) for e1, e2 in pairs])])
        obligations.append((label + ": base times observed by successive snapshots of one thread never decrease", a))
        if a == "sat":
            violations.append({"desc": "second snapshot older than the first in " + label, "scenario": "S3", "execution": execution_listing(sc, model), "smt2": path, "kind": "monotonic"})
        a, _, model, _ = sc.ask(q, "wit-two", [disj(["(and %s (bvugt %s %s))" % (sc.m.en(e2), ret_base(e2), ret_base(e1)) for e1, e2 in pairs])])
        witnesses.append((label + ": the second snapshot can be strictly newer", a))
        results.append(self.finish("c13::" + label, q, [sc], obligations, witnesses, violations, "reader loop unrolled 3 times; %d events" % len(sc.x.events), samples))
        # ---- S4: recency (update completed before the snapshot began, same thread) ---
        label = "S4 thread{update,snapshot} || writer{update}"
        q = smtengine.Queries(logdir, "c13-S4")
        sc = Scenario(mod, [[("update", 1), ("snapshot",)], [("update", 2)]], unroll=3)
        obligations, witnesses, violations, samples = [], [], [], []
        rets = [e for e in sc.events(0, "RET") if e.fn == "snapshot"]
        a, ans, model, path = sc.ask(q, "recency", [disj(["(and %s (bvult %s B1))" % (sc.m.en(e), ret_base(e)) for e in rets])])
        obligations.append((label + ": a snapshot is at least as recent as an update that completed before it began", a))
        if a == "sat":
            violations.append({"desc": "snapshot older than a completed update in " + label, "scenario": "S4", "execution": execution_listing(sc, model), "smt2": path, "kind": "recency"})
        a, _, model, _ = sc.ask(q, "wit", [disj(["(and %s (= %s B2) (bvugt B2 B1))" % (sc.m.en(e), ret_base(e)) for e in rets])])
        witnesses.append((label + ": the snapshot can return the concurrent writer's newer pair", a))
        results.append(self.finish("c13::" + label, q, [sc], obligations, witnesses, violations, "reader loop unrolled 3 times; %d events" % len(sc.x.events), samples))
        # ---- S5: writer filter ------------------------------------------------------
        label = "S5 writer{update} || writer{update}"
        q = smtengine.Queries(logdir, "c13-S5")
        sc = Scenario(mod, [[("update", 1)], [("update", 2)]], unroll=2)
        obligations, witnesses, violations, samples = [], [], [], []
        w0 = [e for e in sc.events(0, "W") if e.lockind == "seq"]
        w1 = [e for e in sc.events(1, "W") if e.lockind == "seq"]
        l0 = sc.events(0, "LOCK")[0]
        l1 = sc.events(1, "LOCK")[0]
        a, ans, model, path = sc.ask(q, "filter", [disj([sc.m.en(e) for e in w0]), disj([sc.m.en(e) for e in w1]), "(< lk_%d lk_%d)" % (l0.id, l1.id), "(bvult B2 B1)"])
        obligations.append((label + ": an update carrying an older base time than the current one is ignored", a))
        if a == "sat":
            violations.append({"desc": "older update published in " + label, "scenario": "S5", "execution": execution_listing(sc, model), "smt2": path, "kind": "filter"})
        a, _, model, _ = sc.ask(q, "wit", [disj([sc.m.en(e) for e in w0]), disj([sc.m.en(e) for e in w1]), "(bvugt B2 B1)"])
        witnesses.append((label + ": both updates can be accepted", a))
        results.append(self.finish("c13::" + label, q, [sc], obligations, witnesses, violations, "%d events" % len(sc.x.events), samples))
        return results


class C18Job(WJob):
    name = "c18::progress[wmm]"
    pid = "C18"

    def run_queries(self, mod, logdir):
        import smtengine
        results = []
        # ---- structural: the reader's event tree never contains a lock operation ------
        q = smtengine.Queries(logdir, "c18-T1")
        K = 5 if self.tier == "quick" else 7
        try:
            sc0 = Scenario(mod, [[("snapshot",)]], unroll=K)
        except Unsupported as e:
            # a lock operation already reached by the reader is a violation whatever follows it
            got = [x for x in getattr(e, "events", []) if x.kind in ("LOCK", "TRYFAIL")]
            if not got:
                raise
            v = {"desc": "snapshot performs a lock operation (%s at depth %d); extraction stopped afterwards at: %s" % (got[0].kind, got[0].depth, e),
                 "kind": "reader_locks", "depth": got[0].depth, "scenario": "reader alone"}
            return [self.finish("c18::T1 snapshot is lock-free by construction", q, [],
                                [("snapshot: no lock operation on any path", "sat")], [("reader tree partially extracted", "sat")], [v],
                                "reader loop unrolled %d times" % K, [])]
        lockev = [e for e in sc0.events(0) if e.kind in ("LOCK", "TRYFAIL", "UNLOCK")]
        obligations = [("snapshot (loop unrolled %d times, every path): no lock operation on any path; %d events, all loads" % (K, len(sc0.x.events)),
                        "unsat" if not lockev else "sat")]
        violations = []
        if lockev:
            violations.append({"desc": "snapshot performs a lock operation (%s at depth %d, after %d sequence re-reads)" % (lockev[0].kind, lockev[0].depth, lockev[0].depth // 3),
                               "kind": "reader_locks", "depth": lockev[0].depth, "scenario": "reader alone"})
        kinds = sorted({e.kind for e in sc0.events(0)})
        results.append(self.finish("c18::T1 snapshot is lock-free by construction", q, [sc0], obligations,
                                   [("reader tree extracted (kinds: %s)" % ",".join(kinds), "sat" if sc0.events(0, "RET") else "unsat")], violations,
                                   "reader loop unrolled %d times" % K, [{"reader_event_kinds": kinds, "events": len(sc0.x.events)}]))
        # ---- bounded retries with writers suspended anywhere -------------------------------
        q = smtengine.Queries(logdir, "c18-T2")
        threads = [[("update", 1), ("update", 2)], [("snapshot",)]]
        sc = Scenario(mod, threads, unroll=3)
        lb = sc.events(1, "LOOPBOUND")
        obligations, witnesses, violations = [], [], []
        a, ans, model, path = sc.ask(q, "bounded", [disj([sc.m.en(e) for e in lb])])
        obligations.append(("snapshot completes within (#sequence stores + 1) iterations wherever the writer is suspended (STOP point symbolic, lock possibly held)", a))
        if a == "sat":
            violations.append({"desc": "snapshot retries without a completed write", "scenario": "T2", "execution": execution_listing(sc, model), "smt2": path, "kind": "retries", "reader": 1})
        locks0 = sc.events(0, "LOCK")
        unl0 = sc.events(0, "UNLOCK")
        held = [sc.m.en(locks0[0])] + ["(not %s)" % sc.m.en(u) for u in unl0 if u.lock == locks0[0].id] + ["(not %s)" % sc.m.en(l) for l in locks0[1:]]
        a, _, model, _ = sc.ask(q, "wit-held", held + [sc.complete(1), disj([sc.m.en(e) for e in sc.events(1, "RET")])])
        witnesses.append(("reader completes while the writer is suspended holding the lock mid-update", a))
        results.append(self.finish("c18::T2 snapshot progress under suspended writers", q, [sc], obligations, witnesses, violations,
                                   "writer{update,update} suspended at any event || reader; %d events" % len(sc.x.events), []))
        # ---- try_update never blocks ----------------------------------------------------
        q = smtengine.Queries(logdir, "c18-T3")
        sc = Scenario(mod, [[("update", 1)], [("try_update", 2)]], unroll=2)
        obligations, witnesses, violations = [], [], []
        blocking = [e for e in sc.events(1, "LOCK") if e.blocking]
        obligations.append(("try_update: no blocking Mutex::lock on any path (including the poisoned-lock arm)", "unsat" if not blocking else "sat"))
        if blocking:
            violations.append({"desc": "try_update can block: Mutex::lock reachable at depth %d" % blocking[0].depth, "kind": "try_update_blocks",
                               "poisoned_arm": any("poisoned" in g for g in blocking[0].guard), "scenario": "T3"})
        l0 = sc.events(0, "LOCK")[0]
        unl0 = [u for u in sc.events(0, "UNLOCK") if u.lock == l0.id]
        held = [sc.m.en(l0)] + ["(not %s)" % sc.m.en(u) for u in unl0]
        t1locks = [e for e in sc.events(1) if e.kind in ("LOCK", "TRYFAIL")]
        after = ["(< lk_%d lk_%d)" % (l0.id, e.id) for e in t1locks]
        rets = sc.events(1, "RET")
        istrue = lambda e: e.value.term if e.value.kind == "bool" else "false"
        a, ans, model, path = sc.ask(q, "returns-true", held + after + [disj(["(and %s %s)" % (sc.m.en(e), istrue(e)) for e in rets])])
        obligations.append(("try_update returns false whenever another writer holds the lock", a))
        if a == "sat":
            violations.append({"desc": "try_update returned true while the lock was held", "scenario": "T3", "execution": execution_listing(sc, model), "smt2": path, "kind": "try_true"})
        a, _, model, _ = sc.ask(q, "wit-false", held + after + [sc.complete(1), disj(["(and %s (not %s))" % (sc.m.en(e), istrue(e)) for e in rets])])
        witnesses.append(("try_update completes (returns false) while the other writer is suspended holding the lock", a))
        a, _, model, _ = sc.ask(q, "wit-true", [sc.complete(0), sc.complete(1), disj(["(and %s %s)" % (sc.m.en(e), istrue(e)) for e in rets])])
        witnesses.append(("try_update can succeed when the lock is free", a))
        results.append(self.finish("c18::T3 try_update never waits", q, [sc], obligations, witnesses, violations, "writer{update} || writer{try_update}; %d events" % len(sc.x.events), []))
        # ---- get_base_time_unlocked is just a snapshot -----------------------------------
        q = smtengine.Queries(logdir, "c18-T4")
        body = mod.find("get_base_time_unlocked")
        calls = [re.match(r"^_\d+ = (.*?)\(", s).group(1) for ls in body.blocks.values() for s in ls if re.match(r"^_\d+ = .*\) -> \[return", s)]
        only_snapshot = calls == ["AtomicBaseTime::snapshot"]
        viol = [] if only_snapshot else [{"desc": "get_base_time_unlocked calls %r" % (calls,), "kind": "unlocked_calls"}]
        results.append(self.finish("c18::T4 get_base_time_unlocked inherits the guarantee", q, [], [("get_base_time_unlocked's MIR body calls only AtomicBaseTime::snapshot", "unsat" if only_snapshot else "sat")],
                                   [("body found", "sat")], viol, "structural (MIR call list)", [{"calls": calls}]))
        return results
