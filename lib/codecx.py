"""HCOBS codec state machines vs an independent reference codec, decided by SMT (Engine X).

Implementation side: the rustc MIR of hcobs::encoder::EncoderState / hcobs::decoder::DecoderState
(dumped from /repo on every run) is executed by lib/mirx.py with symbolic payload bytes; every
path yields a path condition, an outcome and the sequence of OwningIovec sink events, from which
the produced byte string is reconstructed (placeholders filled by their backfills).
Reference side: the format written down independently in this file (greedy chunking, radix-253
headers, implicit stuff sequence after short chunks), also as (condition, output) cases.
Decision: z3 and cvc5 are asked whether any implementation path and any reference case overlap
with different results; unsat = the state machine agrees with the format for EVERY byte string of
the given length, segmentation and input method.
"""
import json
import os
import time

import mir
import mirx
from mirx import Adt, Interp, Ref, Slice, Sym, SymB, conj_all
from mir import Unsupported, bvconst
from mirx import State

VERIF = os.path.dirname(os.path.dirname(os.path.abspath(__file__)))
WORK = os.path.join(VERIF, ".work")
RADIX = 253


def byte_eq(v, k):
    if isinstance(v, Sym):
        return "(= %s %s)" % (v.term, bvconst(k, 8))
    return v == k


def AND(*cs):
    out = []
    for c in cs:
        if c is True or c is None:
            continue
        if c is False:
            return False
        out.append(c)
    if not out:
        return True
    return out[0] if len(out) == 1 else "(and %s)" % " ".join(out)


def NOT(c):
    if c is True:
        return False
    if c is False:
        return True
    return "(not %s)" % c


def term8(v):
    return v.term if isinstance(v, Sym) else bvconst(v, 8)


# ---------------------------------------------------------------------------
# reference codec over symbolic bytes

def ref_encode_cases(data, a, b):
    """Canonical encoding of `data` (list of byte values): list of (conds, out_bytes)."""
    n = len(data)
    cases = []

    def stuff_at(i):
        if i + 1 >= n:
            return False
        return AND(byte_eq(data[i], 0xFE), byte_eq(data[i + 1], 0xFD))

    def chunk(pos, first, maxsz, conds, out):
        # scan for the end of this chunk
        def scan(size, conds):
            while True:
                if not (size < maxsz and pos + size < n):
                    finish(size, False, conds)
                    return
                s = stuff_at(pos + size) if size + 2 <= maxsz else False
                if s is False:
                    size += 1
                    continue
                if s is True:
                    finish(size, True, conds)
                    return
                finish(size, True, conds + [s])
                conds = conds + [NOT(s)]
                size += 1

        def finish(size, by_stuff, conds):
            hdr = [size % RADIX] if first else [size % RADIX, size // RADIX]
            o = out + hdr + list(data[pos:pos + size])
            if by_stuff:
                chunk(pos + size + 2, False, b, conds, o)
            elif size == maxsz:
                chunk(pos + size, False, b, conds, o)
            else:
                cases.append((conds, o))

        scan(0, conds)

    chunk(0, True, a, [], [])
    return cases


def ref_decode_cases(enc, a, b):
    """Reference decoder: list of (conds, ok, out_bytes)."""
    n = len(enc)
    cases = []
    if n == 0:
        return [([], False, [])]

    def sized(pos, size_term_cases, limit, first, out, conds):
        """size_term_cases: function(k) -> condition that the announced size equals k; plus over-limit condition."""
        eqk, over, in_range_gt = size_term_cases
        avail = n - pos
        for k in range(0, min(avail, limit) + 1):
            c = eqk(k)
            if c is False:
                continue
            if c is True:
                nxt(pos + k, k < limit, out + list(enc[pos:pos + k]), conds)
                return
            o = out + list(enc[pos:pos + k])
            nxt(pos + k, k < limit, o, conds + ([c] if c is not True else []))
        # announced size within the limit but more than what is left: cut short
        c = in_range_gt(min(avail, limit))
        if c is not False:
            cases.append((conds + ([c] if c is not True else []), False, []))
        c = over
        if c is not False:
            cases.append((conds + ([c] if c is not True else []), False, []))

    def nxt(pos, last_short, out, conds):
        if pos == n:
            cases.append((conds, bool(last_short), out))
            return
        o = out + ([0xFE, 0xFD] if last_short else [])
        d0 = enc[pos]
        bad0 = ge(d0, RADIX)
        if bad0 is not False:
            cases.append((conds + ([bad0] if bad0 is not True else []), False, []))
        ok0 = NOT(bad0)
        if ok0 is False:
            return
        c0 = conds + ([ok0] if ok0 is not True else [])
        if pos + 1 >= n:
            cases.append((c0, False, []))  # cut short mid-header
            return
        d1 = enc[pos + 1]
        bad1 = ge(d1, RADIX)
        if bad1 is not False:
            cases.append((c0 + ([bad1] if bad1 is not True else []), False, []))
        ok1 = NOT(bad1)
        if ok1 is False:
            return
        c1 = c0 + ([ok1] if ok1 is not True else [])
        if isinstance(d0, int) and isinstance(d1, int):
            sz = d0 + RADIX * d1
            sized(pos + 2, (lambda k: sz == k, sz > b, lambda m: m < sz <= b), b, False, o, c1)
            return
        size = "(bvadd ((_ zero_extend 24) %s) (bvmul ((_ zero_extend 24) %s) %s))" % (term8(d0), term8(d1), bvconst(RADIX, 32))
        sized(pos + 2, (lambda k: "(= %s %s)" % (size, bvconst(k, 32)), "(bvugt %s %s)" % (size, bvconst(b, 32)),
                        lambda m: "(and (bvugt %s %s) (bvule %s %s))" % (size, bvconst(m, 32), size, bvconst(b, 32))), b, False, o, c1)

    def ge(v, k):
        if isinstance(v, Sym):
            return "(bvuge %s %s)" % (v.term, bvconst(k, 8))
        return v >= k

    h = enc[0]
    if isinstance(h, int):
        sized(1, (lambda k: h == k, h > a, lambda m: m < h <= a), a, True, [], [])
        return cases
    ht = "((_ zero_extend 24) %s)" % term8(h)
    sized(1, (lambda k: "(= %s %s)" % (ht, bvconst(k, 32)), "(bvugt %s %s)" % (ht, bvconst(a, 32)),
              lambda m: "(and (bvugt %s %s) (bvule %s %s))" % (ht, bvconst(m, 32), ht, bvconst(a, 32))), a, True, [], [])
    return cases


# ---------------------------------------------------------------------------
# implementation side

def load_module():
    text = mir.dump_mir("hcobs", os.path.join(WORK, "mir"))
    return mir.Module(text)


def make_interp(mod, nbytes):
    consts = {"STUFF": Slice([0xFE, 0xFD], "STUFF"), "STUFF_SEQUENCE": Slice([0xFE, 0xFD], "STUFF")}
    decls = ["(declare-const b%d (_ BitVec 8))" % i for i in range(nbytes)]
    return Interp(mod, consts=consts, decls=decls), decls


def find_body(mod, prefix, fn, first_arg=None):
    c = [b[-1] for k, b in mod.bodies.items() if k.startswith(prefix) and k.endswith("::" + fn)
         and (first_arg is None or (b[-1].args and b[-1].args[0][1] == first_arg))]
    if len(c) != 1:
        raise Unsupported("cannot find %s%s (%d candidates)" % (prefix, fn, len(c)))
    return c[0]


def output_of(events):
    """Byte string produced by a sink event log; None when a placeholder was never backfilled."""
    out = []
    holes = {}
    for e in events:
        if e[0] == "clear":
            out, holes = [], {}
        elif e[0] == "register":
            holes[e[1]] = (len(out), e[2])
            out += [None] * e[2]
        elif e[0] in ("push", "push_copy", "push_borrowed"):
            out += list(e[1])
        elif e[0] == "backfill":
            if e[1] not in holes:
                return None
            off, n = holes.pop(e[1])
            out[off:off + n] = list(e[2])
    if holes or any(x is None for x in out):
        return None
    return out


def max_lag(events):
    """Largest number of bytes appended after the earliest pending placeholder, over the whole log; and max pending."""
    pending = {}
    total = 0
    worst = 0
    most = 0
    for e in events:
        if e[0] == "register":
            pending[e[1]] = total
            total += e[2]
        elif e[0] in ("push", "push_copy", "push_borrowed"):
            total += len(e[1])
        elif e[0] == "backfill":
            pending.pop(e[1], None)
        if pending:
            worst = max(worst, total - min(pending.values()))
        most = max(most, len(pending))
    return worst, most


def run_encoder(mod, it, data, cuts, methods, limits):
    """Returns list of (conds, kind, out_bytes, events)."""
    params = Adt("Parameters", {"max_initial_size": limits[0], "max_subsequent_size": limits[1]})
    iov = Ref("iovec")
    new = find_body(mod, "encoder::", "new")
    res = it.call(new, [iov, params])
    pieces = []
    lo = 0
    for c in list(cuts) + [len(data)]:
        pieces.append(data[lo:c])
        lo = c
    states = [(r.state, r.value) for r in res if r.kind == "return"]
    bad = [r for r in res if r.kind != "return"]
    for piece, meth in zip(pieces, methods):
        fn = find_body(mod, "encoder::", "encode_copy" if meth == "copy" else "encode_borrow", "EncoderState")
        nxt = []
        for st, val in states:
            rs = it.call(fn, [val, iov, params, Slice(piece, "in")], base=st)
            for r in rs:
                if r.kind == "return":
                    nxt.append((r.state, r.value))
                else:
                    bad.append(r)
        states = nxt
    term = find_body(mod, "encoder::", "terminate", "EncoderState")
    out = []
    for st, val in states:
        for r in it.call(term, [val, iov], base=st):
            if r.kind == "return":
                out.append((r.state.cond, "ok", output_of(r.state.events), r.state.events))
            else:
                bad.append(r)
    for r in bad:
        out.append((r.state.cond, r.kind + ": " + r.note, None, r.state.events))
    return out


def run_decoder(mod, it, enc, cuts, methods, limits, base_cond=None):
    params = Adt("Parameters", {"max_initial_size": limits[0], "max_subsequent_size": limits[1]})
    iov = Ref("iovec")
    new = find_body(mod, "decoder::", "new")
    base = None
    if base_cond:
        base = State()
        base.cond = list(base_cond)
    res = it.call(new, [], base=base)
    states = [(r.state, r.value) for r in res if r.kind == "return"]
    pieces = []
    lo = 0
    for c in list(cuts) + [len(enc)]:
        pieces.append(enc[lo:c])
        lo = c
    out = []
    for piece, meth in zip(pieces, methods):
        fn = find_body(mod, "decoder::", "decode_copy" if meth == "copy" else "decode_borrow", "DecoderState")
        nxt = []
        for st, val in states:
            for r in it.call(fn, [val, iov, params, Slice(piece, "in")], base=st):
                if r.kind != "return":
                    out.append((r.state.cond, r.kind + ": " + r.note, None, r.state.events))
                elif r.value.name == "Ok":
                    nxt.append((r.state, r.value.fields[0]))
                else:
                    out.append((r.state.cond, "err", None, r.state.events))
        states = nxt
    term = find_body(mod, "decoder::", "terminate", "DecoderState")
    for st, val in states:
        for r in it.call(term, [val], base=st):
            if r.kind != "return":
                out.append((r.state.cond, r.kind + ": " + r.note, None, r.state.events))
            elif r.value.name == "Ok":
                out.append((r.state.cond, "ok", output_of(r.state.events), r.state.events))
            else:
                out.append((r.state.cond, "err", None, r.state.events))
    return out


def differ(x, y):
    """SMT condition (or bool) that two byte strings differ."""
    if len(x) != len(y):
        return True
    ds = []
    for p, q in zip(x, y):
        if isinstance(p, int) and isinstance(q, int):
            if p != q:
                return True
            continue
        ds.append("(not (= %s %s))" % (term8(p), term8(q)))
    if not ds:
        return False
    return ds[0] if len(ds) == 1 else "(or %s)" % " ".join(ds)


def mismatch_formula(impl, ref, encoder):
    """OR over (impl path, reference case) pairs of: both conditions hold and the results differ."""
    alts = []
    for ic, kind, iout, _ev in impl:
        ict = AND(*ic)
        if ict is False:
            continue
        if kind not in ("ok", "err"):
            alts.append(ict if ict is not True else "true")   # a panic / unreachable path is a mismatch by itself
            continue
        for r in ref:
            if encoder:
                rc, rout = r
                rok = True
            else:
                rc, rok, rout = r
            rct = AND(*rc)
            if rct is False:
                continue
            if (kind == "ok") != bool(rok):
                d = True
            elif kind == "err":
                d = False
            else:
                d = True if iout is None else differ(iout, rout)
            if d is False:
                continue
            t = AND(ict, rct, d)
            if t is False:
                continue
            alts.append("true" if t is True else t)
    return alts


# ---------------------------------------------------------------------------
# jobs

def _res(name, **kw):
    import smtengine
    r = smtengine.result(name, "PASS")
    r["engine"] = "mir->path-enumerating interpreter (symbolic bytes)->smt (z3 4.8.12 + cvc5 1.0)"
    r.update(kw)
    return r


def sym_bytes(n):
    return [Sym("b%d" % i, 8) for i in range(n)]


METHOD_SETS = {"cc": ("copy", "copy"), "cb": ("copy", "borrow"), "bc": ("borrow", "copy"), "bb": ("borrow", "borrow")}


def _shard_entry(job, logdir, cfgs, idx):
    return job._run_shard(logdir, cfgs, idx)


class CodecJob:
    """Base: iterates configurations, accumulates obligations / violations, produces one result."""
    name = "codec"
    pid = "C07"

    def __init__(self, tier="quick", seed=0):
        self.tier, self.seed = tier, seed

    def configs(self):
        raise NotImplementedError

    def check(self, mod, cfg, q):
        raise NotImplementedError

    def run(self, logdir):
        import smtengine
        t0 = time.time()
        # the configurations are independent: they are sharded over worker processes (round-robin, so that every
        # shard gets its share of the expensive ones); each shard keeps its own solver sessions
        shards = int(os.environ.get("VERIF_X_SHARDS", "4" if self.tier == "thorough" else "3"))
        cfgs = list(self.configs())
        shards = max(1, min(shards, len(cfgs)))
        try:
            load_module()   # dump the MIR once, before forking
            import multiprocessing
            ctx = multiprocessing.get_context("fork")
            # wall-clock cap for the whole job: an interpreter that does not come back (e.g. a changed function that
            # makes the path enumeration blow up) is INCONCLUSIVE, never a hang and never a pass
            cap = float(os.environ.get("VERIF_X_CAP_S", "800" if self.tier == "quick" else "5400")) * float(os.environ.get("VERIF_TIMEOUT_SCALE", "1"))
            pool = ctx.Pool(shards)
            try:
                parts = pool.starmap_async(_shard_entry, [(self, logdir, cfgs[i::shards], i) for i in range(shards)]).get(timeout=cap)
                pool.close()
            except multiprocessing.TimeoutError:
                pool.terminate()
                return [_res(self.name, status="INCONCLUSIVE", reason="the job did not finish within its %d s cap" % cap, wall=time.time() - t0)]
            finally:
                pool.join()
        except Unsupported as e:
            return [_res(self.name, status="INCONCLUSIVE", reason="MIR construct outside the interpreter: %s" % e, wall=time.time() - t0)]
        bad = [p["unsupported"] for p in parts if p.get("unsupported")]
        if bad:
            return [_res(self.name, status="INCONCLUSIVE", reason="MIR construct outside the interpreter: %s" % bad[0], wall=time.time() - t0)]
        obligations = [o for p in parts for o in p["obligations"]]
        violations = [v for p in parts for v in p["violations"]][:4]
        samples = [x for p in parts for x in p["samples"]][:6]
        npaths = sum(p["npaths"] for p in parts)

        class _Q:
            n = sum(p["queries"] for p in parts)
            solver_s = sum(p["solver_s"] for p in parts)
        q = _Q()
        inconc = [o for o in obligations if o[1] not in ("unsat", "sat-expected", "sat")]
        status, reason = "PASS", ""
        if violations:
            status = "VIOLATION"
        elif inconc:
            status, reason = "INCONCLUSIVE", "solver answers: " + "; ".join("%s=%s" % (o[0][:60], o[1]) for o in inconc[:3])
        r = _res(self.name, status=status, reason=reason, checks_total=len(obligations), checks_nontrivial=len(obligations),
                 checks_ok=sum(1 for o in obligations if o[1] in ("unsat", "sat-expected")), queries=q.n + 0, solver_s=q.solver_s,
                 functions=self.functions(), bounds=self.bounds(), samples=samples, failed=violations,
                 covers={"implementation paths enumerated": "SATISFIED" if npaths > 0 else "UNSATISFIABLE"},
                 obligations_detail=[{"obligation": o[0], "answer": o[1]} for o in obligations[:40]], paths=npaths, wall=time.time() - t0)
        if status == "VIOLATION":
            # replay before reporting: the first counterexample that reproduces natively is the one reported
            r["reproduced"], tried = False, []
            for v in violations:
                art = save_case(self.pid, self.name, v)
                ok, detail = replay_case(art)
                tried.append(detail)
                if ok or "artifact" not in r:
                    r["signature"] = "codec " + v["desc"]
                    r["reproduced"], r["artifact"], r["detail"] = bool(ok), art, detail + "; " + v["desc"]
                if ok:
                    break
            if not r["reproduced"]:
                r["detail"] = "none of %d solver counterexamples reproduced natively: %s" % (len(tried), " | ".join(t[:160] for t in tried))
        return [r]

    def _run_shard(self, logdir, cfgs, idx):
        import smtengine
        q = smtengine.Queries(logdir, "%s-s%d" % (self.name.replace("::", "-").replace("[", "").replace("]", ""), idx), keep_unsat=False)
        out = {"obligations": [], "violations": [], "samples": [], "npaths": 0, "queries": 0, "solver_s": 0.0}
        try:
            mod = load_module()
            for cfg in cfgs:
                ob, viol, sample, paths = self.check(mod, cfg, q)
                out["obligations"] += ob
                out["violations"] += viol
                out["npaths"] += paths
                if sample and len(out["samples"]) < 3:
                    out["samples"].append(sample)
                if len(out["violations"]) >= 4:
                    break
        except Unsupported as e:
            out["unsupported"] = str(e)
        out["queries"], out["solver_s"] = q.n, q.solver_s
        return out

    def functions(self):
        return ["hcobs::encoder::EncoderState::{new,new_subsequent,encode_borrow,encode_copy,consume_once,write,copy,write_partial_stuff_sequence,encode_header,terminate} (MIR)",
                "hcobs::decoder::{DecoderState::{new,decode_borrow,decode_copy,terminate},InitialState::decode,BeforeChunk::decode,MidHeader::decode,InChunk::{decode_borrow,decode_copy,update}} (MIR)",
                "stubs: OwningIovec::{register_patch,push,push_copy,backfill_or_panic} = event log; hcobs::find_stuff_sequence = its contract (decided by Kani job fss::fss_first_occurrence)"]

    def bounds(self):
        return ""


def concrete_bytes(model, n):
    mv = mir.model_values(model)
    return [int(mv.get("b%d" % i, 0)) for i in range(n)]


def save_case(pid, name, v):
    import kanirun
    import re as _re
    d = os.path.join(VERIF, "replays" + kanirun.ALT, pid)
    os.makedirs(d, exist_ok=True)
    import hashlib
    h = hashlib.sha1(json.dumps([v.get("input"), v.get("cuts"), v.get("methods"), v.get("limits")]).encode()).hexdigest()[:8]
    path = os.path.join(d, _re.sub(r"\W+", "_", name + "-" + v["desc"])[:100] + "-" + h + ".json")
    json.dump(v, open(path, "w"), indent=1, default=str)
    return path


def _short(xs):
    xs = list(xs)
    return repr(xs) if len(xs) <= 16 else "[%s, ... %d bytes ..., %s]" % (", ".join(map(str, xs[:8])), len(xs), ", ".join(map(str, xs[-6:])))


def replay_case(art):
    """Native replay through the public Encoder / Decoder API (replay_drivers/hcobs)."""
    v = json.load(open(art))
    if "input" not in v:
        return None, "no concrete input recorded"
    import subprocess
    import shutil
    import kanirun
    base = os.path.join(VERIF, "replay_drivers", "hcobs")
    d = base
    if kanirun.ALT:
        d = os.path.join(WORK, "drivers" + kanirun.ALT, "hcobs")
        if os.path.exists(d):
            shutil.rmtree(d)
        shutil.copytree(base, d, ignore=shutil.ignore_patterns("target"))
        t = open(os.path.join(d, "Cargo.toml")).read().replace('"/repo/', '"%s/' % mir.REPO)
        open(os.path.join(d, "Cargo.toml"), "w").write(t)
    lock = os.path.join(mir.REPO, "Cargo.lock")
    if os.path.exists(lock):
        shutil.copyfile(lock, os.path.join(d, "Cargo.lock"))
    env = dict(os.environ)
    env["CARGO_NET_OFFLINE"] = "true"
    env["CARGO_TARGET_DIR"] = os.path.join(WORK, "target", "driver-hcobs" + kanirun.ALT)
    if tuple(v["limits"]) == PROD:
        # production limits: the build users get, no limit-replacing hook
        env["RUSTFLAGS"] = "--cfg woodpile_verif"
        env.pop("WOODPILE_VERIF_HCOBS_LIMITS", None)
    else:
        env["RUSTFLAGS"] = "--cfg woodpile_verif --cfg woodpile_verif_hcobs_limits"
        env["WOODPILE_VERIF_HCOBS_LIMITS"] = "%d,%d" % tuple(v["limits"])
    inpath = art + ".input"
    open(inpath, "w").write(",".join(str(x) for x in v["input"]))
    args = [v["side"], "@" + inpath, ",".join(str(c) for c in v["cuts"]), ",".join(v["methods"])]
    if v["side"] == "fss":
        args = ["fss", "@" + inpath]
    if v["side"] == "advance":
        if sum(v["cuts"]) > (1 << 24):
            return None, "stable prefix too large to build natively"
        args = ["advance", "0", ",".join(str(c) for c in v["cuts"]), str(v["count"])]
        if v.get("pending"):
            args += [str(v["pending"]["begin"]), str(v["pending"]["len"]), str(v["pending"]["tail"])]
    if v["side"] == "stream-growth":
        args = ["stream-growth", "@" + inpath, "none" if v.get("max_size") is None else str(v["max_size"]), "none" if v.get("limit") is None else str(v["limit"])]
    if v["side"] == "stream":
        args = ["stream", "@" + inpath, "none" if v.get("max_size") is None else str(v["max_size"]), "none" if v.get("limit") is None else str(v["limit"])]
    p = subprocess.run(["cargo", "run", "--offline", "-q", "--"] + args, cwd=d, env=env, stdout=subprocess.PIPE, stderr=subprocess.STDOUT, text=True, timeout=900)
    out = p.stdout
    import re as _re
    if v["side"] == "fss":
        mm = _re.search(r"FSS (PANIC|none|\d+)", out)
        if not mm:
            return None, "replay driver failed: " + out[-400:]
        inp = v["input"]
        want = next((str(i) for i in range(len(inp) - 1) if inp[i] == 0xFE and inp[i + 1] == 0xFD), "none")
        if mm.group(1) != want:
            return True, "native find_stuff_sequence(%s) -> %s, the first FE FD is at %s" % (_short(inp), mm.group(1), want)
        return False, "native find_stuff_sequence agrees on %s" % _short(inp)
    if v["side"] == "advance":
        mm = _re.search(r"ADVANCE (PANIC|returned=(\d+) removed=(\d+))", out)
        if not mm:
            return None, "replay driver failed: " + out[-400:]
        want = v["expected"]["consumed"]
        if mm.group(1) == "PANIC":
            return True, "native advance_slices(%d) over slices %r panicked" % (v["count"], v["cuts"])
        if int(mm.group(2)) != want or int(mm.group(3)) != want:
            return True, "native advance_slices(%d) over slices %r returned %s and removed %s bytes, expected %d" % (v["count"], v["cuts"], mm.group(2), mm.group(3), want)
        return False, "native advance_slices(%d) over slices %r consumed %d bytes as expected" % (v["count"], v["cuts"], want)
    if v["side"].startswith("readwrap"):
        lines = [l for l in out.splitlines() if l.startswith("READWRAP ")]
        if not lines:
            return None, "replay driver failed: " + out[-400:]
        for l in lines:
            body = l.split(" => ", 1)[1].strip()
            if body == "PANIC":
                return True, "native %s on %s, counts %r: panic (%s)" % (v["side"], _short(v["input"]), v["cuts"], l.split(" => ")[0])
            mm = _re.match(r"rets=(\S*) consumed=(\d+) out=(\S*)", body)
            rets = [x for x in mm.group(1).split(",") if x]
            consumed = int(mm.group(2))
            total = sum(int(x) for x in rets if x != "err")
            outb = None if mm.group(3) == "none" else [int(x) for x in mm.group(3).split(".") if x]
            bad = None
            if total != consumed:
                bad = "reported %d bytes but took %d from the reader" % (total, consumed)
            elif v["side"].endswith("enc") and outb != eval_ref_encode(v["input"][:consumed], *PROD):
                bad = "output is not the encoding of the %d bytes read" % consumed
            elif v["side"].endswith("dec") and "err" not in rets:
                ok, exp = eval_ref_decode(v["input"][:consumed], *PROD)
                if (outb is not None) != ok or (ok and outb != exp):
                    bad = "decoded output differs from the decoding of the %d bytes read" % consumed
            if bad:
                return True, "native %s on %s, counts %r, %s: %s" % (v["side"], _short(v["input"]), v["cuts"], l.split(" => ")[0][9:], bad)
        return False, "native %s agrees with the contract on %s" % (v["side"], _short(v["input"]))
    if v["side"] == "stream-growth":
        lines = [l for l in out.splitlines() if l.startswith("GROWTH ")]
        if not lines:
            return None, "replay driver failed: " + out[-400:]
        for l in lines:
            if int(l.split(" => ")[1]) > 0:
                return True, "native StreamReader on %s (max_record_size %s) %s: the iovec grew by %s bytes after the judge had answered SkipRecord" % (_short(v["input"]), v.get("max_size"), l.split(" => ")[0][7:], l.split(" => ")[1])
        return False, "native StreamReader never grows a skipped record on %s" % _short(v["input"])
    if v["side"] == "stream":
        want = ";".join("%d-%d:%s" % (r[1][0], r[1][1], ".".join(str(x) for x in r[0])) for r in v["expected"]["records"])
        lines = [l for l in out.splitlines() if l.startswith("STREAM ")]
        if not lines:
            return None, "replay driver failed: " + out[-400:]
        for l in lines:
            got = l.split(" => ", 1)[1].strip()
            if got != want:
                return True, "native StreamReader on %s (max_record_size %s, limit_offset %s) %s yields [%s], the stream's valid records are [%s]" % (
                    _short(v["input"]), v.get("max_size"), v.get("limit"), l.split(" => ")[0][7:], got, want)
        return False, "native StreamReader agrees with the reference on %s for %d block-size / read-size schedules" % (_short(v["input"]), len(lines))
    if v["side"] not in ("encode", "decode", "roundtrip", "anchors-enc", "anchors-dec"):
        return None, "no native replay for side %r" % v["side"]
    m = _re.search(r"RESULT (\w+)(?: (.*))?", out)
    if not m:
        return None, "replay driver failed: " + out[-400:]
    got_kind, got_bytes = m.group(1), [int(x) for x in (m.group(2) or "").split(",") if x.strip()]
    want_kind, want_bytes = v["expected"]["kind"], v["expected"].get("bytes") or []
    if got_kind == "PANIC":
        return True, "native run panicked on input %s" % _short(v["input"])
    if got_kind != want_kind or (got_kind == "ok" and got_bytes != want_bytes):
        if v["side"].startswith("anchors"):
            return True, "native %s(%s, cuts %r, %r): the bytes exposed by the iovec changed once the source arena was gone (dangling)" % (v["side"], _short(v["input"]), v["cuts"], v["methods"])
        return True, "native %s(%s, cuts %r, %r) -> %s %s, the format says %s %s" % (v["side"], _short(v["input"]), v["cuts"], v["methods"], got_kind, _short(got_bytes), want_kind, _short(want_bytes))
    return False, "native run agrees with the reference on %s" % _short(v["input"])


def replay(pid, art):
    ok, detail = replay_case(art)
    return bool(ok), detail


def ref_concrete_encode(data, a, b):
    cs = ref_encode_cases(list(data), a, b)
    return [c for c in cs if not c[0]][0][1] if any(not c[0] for c in cs) else None


def ref_concrete_decode(enc, a, b):
    for conds, ok, out in ref_decode_cases(list(enc), a, b):
        if all(c is True for c in conds) or not conds:
            return ok, out
    # concrete inputs give concrete conditions only when every comparison folded; evaluate by brute force instead
    return None, None


def eval_ref_encode(data, a, b):
    """Concrete reference encoding (plain Python, same algorithm as ref_encode_cases)."""
    n, out, pos, first, mx = len(data), [], 0, True, a
    while True:
        size, by = 0, False
        while size < mx and pos + size < n:
            if data[pos + size] == 0xFE and pos + size + 1 < n and data[pos + size + 1] == 0xFD and size + 2 <= mx:
                by = True
                break
            size += 1
        out += ([size % RADIX] if first else [size % RADIX, size // RADIX]) + list(data[pos:pos + size])
        if by:
            pos += size + 2
        elif size == mx:
            pos += size
        else:
            return out
        first, mx = False, b


def eval_ref_decode(enc, a, b):
    n, out, pos, first, short = len(enc), [], 0, True, False
    if n == 0:
        return False, []
    while pos < n:
        if first:
            size, lim = enc[pos], a
            pos += 1
        else:
            if short:
                out += [0xFE, 0xFD]
            if enc[pos] >= RADIX or pos + 1 >= n or enc[pos + 1] >= RADIX:
                return False, []
            size, lim = enc[pos] + RADIX * enc[pos + 1], b
            pos += 2
        if size > lim or pos + size > n:
            return False, []
        out += list(enc[pos:pos + size])
        pos += size
        short, first = size < lim, False
    return bool(short), out


class EncoderVsReference(CodecJob):
    name = "c07::encoder_vs_reference[mirx]"
    pid = "C07"

    def configs(self):
        quick = self.tier == "quick"
        lims = [(2, 3), (1, 2), (1, 1), (3, 5)] if quick else [(2, 3), (1, 2), (1, 1), (3, 5), (2, 2), (4, 7)]
        Ls = range(0, 10) if not quick else range(0, 8)
        for lim in lims:
            for L in Ls:
                for cut in range(0, L + 1):
                    for ms in (("cb", "bc") if (quick or L > 8) else ("cc", "cb", "bc", "bb")):
                        yield {"L": L, "cuts": [cut], "methods": METHOD_SETS[ms], "limits": lim}
        # three pieces
        for L in ((4, 5) if quick else (4, 5, 6, 7)):
            for c1 in range(0, L + 1):
                for c2 in range(c1, L + 1):
                    yield {"L": L, "cuts": [c1, c2], "methods": ("copy", "borrow", "copy"), "limits": (2, 3)}
        # production limits: short inputs
        for L in (0, 1, 3, 6):
            yield {"L": L, "cuts": [L // 2], "methods": ("borrow", "copy"), "limits": (252, 64008)}

    def bounds(self):
        return ("EncoderState output == canonical encoding for EVERY byte string of length L (quick 0..7, thorough 0..9), every cut into two pieces (three pieces for L 4..7), "
                "input methods per piece in {encode_copy, encode_borrow}, limits (1,1),(1,2),(2,3),(3,5) (thorough: + (2,2),(4,7)) passed as Parameters, and the production limits for L <= 6")

    def check(self, mod, cfg, q):
        L, cuts, methods, lim = cfg["L"], cfg["cuts"], cfg["methods"], cfg["limits"]
        it, decls = make_interp(mod, max(L, 1))
        try:
            data = sym_bytes(L)
            impl = run_encoder(mod, it, data, cuts, methods, lim)
            ref = ref_encode_cases(data, lim[0], lim[1])
        finally:
            it.z3.close()
        tag = "L%d-c%s-%s-%d_%d" % (L, "_".join(map(str, cuts)), "".join(m[0] for m in methods), lim[0], lim[1])
        ob, viol = [], []
        alts = mismatch_formula(impl, ref, True)
        # stuff-free and size bound on the implementation's own outputs (C02)
        for ic, kind, iout, _ev in impl:
            if kind == "ok" and iout is not None:
                for i in range(len(iout) - 1):
                    c = AND(*(list(ic) + [byte_eq(iout[i], 0xFE), byte_eq(iout[i + 1], 0xFD)]))
                    if c is not False:
                        alts.append("true" if c is True else c)
        # C09: bytes appended behind the earliest pending placeholder stay below one chunk + header; at most one placeholder pending
        lag_limit = max(lim[0] + 1, lim[1] + 2)
        for ic, kind, iout, ev in impl:
            worst, most = max_lag(ev)
            if worst > lag_limit or most > 1:
                c = AND(*ic)
                if c is not False:
                    alts.append("true" if c is True else c)
        if alts:
            a, ans, model, path = q.ask("enc-" + tag, decls, [mir.disj(alts)], get_model=True)
        else:
            a, model, path = "unsat", "", ""
        ob.append(("encoder %s: output == reference, stuff-free" % tag, a))
        if a == "sat":
            inp = concrete_bytes(model, L)
            viol.append({"desc": "Encoder output differs from the canonical encoding (or contains FE FD)", "side": "encode", "input": inp, "cuts": cuts, "methods": list(methods),
                         "limits": list(lim), "expected": {"kind": "ok", "bytes": eval_ref_encode(inp, lim[0], lim[1])}, "smt2": path})
        cov = [AND(*ic) for ic, _, _, _ in impl]
        cov = ["true" if c is True else c for c in cov if c is not False]
        a2, _, model2, path2 = q.ask("enc-cov-" + tag, decls, ["(not %s)" % mir.disj(cov)], get_model=False) if cov else ("sat", None, "", "")
        ob.append(("encoder %s: the enumerated paths cover every input" % tag, a2))
        sample = {"config": cfg, "implementation_paths": len(impl), "reference_cases": len(ref), "example_path_output": [str(x) for x in (impl[0][2] or [])][:12]} if impl else None
        return ob, viol, sample, len(impl)


class DecoderVsReference(CodecJob):
    name = "c07::decoder_vs_reference[mirx]"
    pid = "C07"

    def configs(self):
        quick = self.tier == "quick"
        lims = [(2, 3), (1, 2), (252, 64008), (1, 1), (3, 5)]
        if quick:
            lims = lims[:3]
        Ls = range(0, 8) if not quick else range(0, 7)
        for lim in lims:
            for L in Ls:
                for cut in range(0, L + 1):
                    for ms in (("cb", "bc") if quick else ("cc", "cb", "bc", "bb")):
                        yield {"L": L, "cuts": [cut], "methods": METHOD_SETS[ms], "limits": lim}

    def bounds(self):
        return ("DecoderState accepts exactly the well-formed strings and returns exactly the reference plain text for EVERY byte string of length L (quick 0..6, thorough 0..7), "
                "every cut into two pieces, input methods {decode_copy, decode_borrow}, tiny limits and the production limits 252 / 64008")

    def check(self, mod, cfg, q):
        L, cuts, methods, lim = cfg["L"], cfg["cuts"], cfg["methods"], cfg["limits"]
        it, decls = make_interp(mod, max(L, 1))
        try:
            data = sym_bytes(L)
            impl = run_decoder(mod, it, data, cuts, methods, lim)
            ref = ref_decode_cases(data, lim[0], lim[1])
        finally:
            it.z3.close()
        tag = "L%d-c%s-%s-%d_%d" % (L, "_".join(map(str, cuts)), "".join(m[0] for m in methods), lim[0], lim[1])
        ob, viol = [], []
        alts = mismatch_formula(impl, ref, False)
        # decoders never register placeholders (C09: zero lag)
        for ic, kind, _o, ev in impl:
            if any(e[0] == "register" for e in ev):
                c = AND(*ic)
                if c is not False:
                    alts.append("true" if c is True else c)
        if alts:
            a, ans, model, path = q.ask("dec-" + tag, decls, [mir.disj(alts)])
        else:
            a, model, path = "unsat", "", ""
        ob.append(("decoder %s: accept set and output == reference" % tag, a))
        if a == "sat":
            inp = concrete_bytes(model, L)
            ok, out = eval_ref_decode(inp, lim[0], lim[1])
            viol.append({"desc": "Decoder disagrees with the format", "side": "decode", "input": inp, "cuts": cuts, "methods": list(methods), "limits": list(lim),
                         "expected": {"kind": "ok" if ok else "err", "bytes": out}, "smt2": path})
        cov = [AND(*ic) for ic, _, _, _ in impl]
        cov = ["true" if c is True else c for c in cov if c is not False]
        a2, _, _, _ = q.ask("dec-cov-" + tag, decls, ["(not %s)" % mir.disj(cov)], get_model=False) if cov else ("sat", None, "", "")
        ob.append(("decoder %s: the enumerated paths cover every input" % tag, a2))
        sample = {"config": cfg, "implementation_paths": len(impl), "reference_cases": len(ref)}
        return ob, viol, sample, len(impl)


class RoundTrip(CodecJob):
    """C01 at the state-machine level: the Decoder state machine run on every output of the Encoder state machine."""
    name = "c01::decode_of_encode[mirx]"
    pid = "C01"

    def configs(self):
        quick = self.tier == "quick"
        lims = [(2, 3), (1, 2), (1, 1), (3, 5), (252, 64008)]
        Ls = range(0, 6) if quick else range(0, 8)
        for lim in (lims[:2] + lims[4:] if quick else lims):
            for L in Ls:
                for cut in (sorted({0, L // 2, L}) if quick else range(0, L + 1)):
                    for ms in (("cb",) if quick else ("cb", "bc")):
                        yield {"L": L, "cuts": [cut], "methods": METHOD_SETS[ms], "limits": lim}

    def bounds(self):
        if self.tier == "quick":
            return ("decode(encode(x)) == x through the real EncoderState and DecoderState MIR for EVERY byte string x of length 0..5, encoder input cut at 0 / middle / end (copy then borrow), "
                    "the encoded stream handed to the decoder cut at 0 / middle / end (decode_borrow then decode_copy), limits (2,3), (1,2) and production")
        return ("decode(encode(x)) == x through the real EncoderState and DecoderState MIR for EVERY byte string x of length 0..7, encoder input cut at every position (copy/borrow and borrow/copy), "
                "the encoded stream handed to the decoder cut at EVERY position (decode_borrow then decode_copy), limits (2,3), (1,2), (1,1), (3,5) and production")

    def check(self, mod, cfg, q):
        L, cuts, methods, lim = cfg["L"], cfg["cuts"], cfg["methods"], cfg["limits"]
        it, decls = make_interp(mod, max(L, 1))
        ob, viol = [], []
        npaths = 0
        tag = "L%d-c%s-%s-%d_%d" % (L, "_".join(map(str, cuts)), "".join(m[0] for m in methods), lim[0], lim[1])
        try:
            data = sym_bytes(L)
            enc = run_encoder(mod, it, data, cuts, methods, lim)
            alts = []
            meta = []
            for ic, kind, iout, _ev in enc:
                c = AND(*ic)
                if c is False:
                    continue
                if kind != "ok" or iout is None:
                    alts.append("true" if c is True else c)
                    meta.append(("encoder " + kind, None))
                    continue
                n = len(iout)
                dcuts = sorted({0, n // 2, n}) if self.tier == "quick" else range(0, n + 1)
                for dc in dcuts:
                    dec = run_decoder(mod, it, iout, [dc], ("borrow", "copy"), lim, base_cond=list(ic))
                    npaths += len(dec)
                    for dcnd, dkind, dout, _e in dec:
                        cc = AND(*dcnd)
                        if cc is False:
                            continue
                        bad = True if (dkind != "ok" or dout is None) else differ(dout, data)
                        if bad is False:
                            continue
                        alts.append(AND(cc, None if bad is True else bad) if AND(cc, None if bad is True else bad) is not True else "true")
                        meta.append((dkind, dc))
        finally:
            it.z3.close()
        if alts:
            a, ans, model, path = q.ask("rt-" + tag, decls, [mir.disj(alts)])
        else:
            a, model, path = "unsat", "", ""
        ob.append(("round trip %s" % tag, a))
        if a == "sat":
            inp = concrete_bytes(model, L)
            viol.append({"desc": "decode(encode(x)) != x", "side": "roundtrip", "input": inp, "cuts": cuts, "methods": list(methods), "limits": list(lim),
                         "expected": {"kind": "ok", "bytes": inp}, "smt2": path})
        return ob, viol, {"config": cfg, "encoder_paths": len(enc), "decoder_paths": npaths}, npaths + len(enc)


# ---------------------------------------------------------------------------
# public API level: hcobs::Encoder / hcobs::Decoder wrappers (lib.rs), PROD_PARAMS read from the MIR

def _pieces(data, cuts):
    out, lo = [], 0
    for c in list(cuts) + [len(data)]:
        out.append(data[lo:c])
        lo = c
    return out


def _api_arg(piece, meth, i):
    if meth == "anchored":
        return Adt("AnchoredSlice", {"slice": Slice(piece, "anch%d" % i), "anchor": Adt("Anchor", {"id": i})})
    return Slice(piece, "in%d" % i)


API_FN = {"enc": {"copy": "encode_copy", "borrow": "encode", "anchored": "encode_anchored"},
          "dec": {"copy": "decode_copy", "borrow": "decode", "anchored": "decode_anchored"}}


_SMALL_COPY = {}


def small_copy():
    """owning_iovec's SMALL_COPY (OwningIovec::push copies slices of at most that many bytes), read from its MIR."""
    if mir.REPO not in _SMALL_COPY:
        import re as _re
        text = mir.dump_mir("owning_iovec", os.path.join(WORK, "mir"))
        m = _re.search(r"const (?:\w+::)*SMALL_COPY: usize = const (\d+)_usize;", text)
        _SMALL_COPY[mir.REPO] = int(m.group(1)) if m else 0
    return _SMALL_COPY[mir.REPO]


def anchor_faults(events, upto_piece):
    """Anchored pieces whose bytes were pushed by reference while the anchor was dropped / not handed to the iovec."""
    bad = []
    small = small_copy()
    for i in range(upto_piece + 1):
        tag = "anch%d" % i
        borrowed = any((e[0] == "push_borrowed" and len(e[1]) > 0 or e[0] == "push" and len(e[1]) > small) and len(e) > 2 and e[2] == tag for e in events)
        kept = any(e[0] == "push_anchor" and e[1] == i for e in events)
        dropped = any(e[0] == "drop_anchor" and e[1] == i for e in events)
        if borrowed and (dropped or not kept):
            bad.append(i)
    return bad


def run_encoder_api(mod, it, data, cuts, methods, base_cond=None):
    """Public hcobs::Encoder: new_from_iovec, encode / encode_copy / encode_anchored per piece, finish."""
    base = State()
    if base_cond:
        base.cond = list(base_cond)
    out = []
    states = []
    for r in it.call(it.api_body("Encoder", "new_from_iovec"), [Adt("OwningIovec", {})], base=base):
        if r.kind == "return":
            r.state.store["g:codec"] = r.value
            states.append(r.state)
        else:
            out.append((r.state.cond, r.kind + ": " + r.note, None, r.state.events, []))
    for i, (piece, meth) in enumerate(zip(_pieces(data, cuts), methods)):
        fn = it.api_body("Encoder", API_FN["enc"][meth])
        nxt = []
        for st in states:
            for r in it.call(fn, [Ref("g:codec"), _api_arg(piece, meth, i)], base=st):
                if r.kind != "return":
                    out.append((r.state.cond, r.kind + ": " + r.note, None, r.state.events, []))
                    continue
                f = anchor_faults(r.state.events, i)
                if f:
                    out.append((r.state.cond, "anchor", None, r.state.events, f))
                else:
                    nxt.append(r.state)
        states = nxt
    fin = it.api_body("Encoder", "finish")
    for st in states:
        for r in it.call(fin, [st.store["g:codec"]], base=st):
            if r.kind == "return":
                out.append((r.state.cond, "ok", output_of(r.state.events), r.state.events, []))
            else:
                out.append((r.state.cond, r.kind + ": " + r.note, None, r.state.events, []))
    return out


def run_decoder_api(mod, it, enc, cuts, methods, base_cond=None):
    base = State()
    if base_cond:
        base.cond = list(base_cond)
    out = []
    states = []
    for r in it.call(it.api_body("Decoder", "new_from_iovec"), [Adt("OwningIovec", {})], base=base):
        if r.kind == "return":
            r.state.store["g:codec"] = r.value
            states.append(r.state)
        else:
            out.append((r.state.cond, r.kind + ": " + r.note, None, r.state.events, []))
    for i, (piece, meth) in enumerate(zip(_pieces(enc, cuts), methods)):
        fn = it.api_body("Decoder", API_FN["dec"][meth])
        nxt = []
        for st in states:
            for r in it.call(fn, [Ref("g:codec"), _api_arg(piece, meth, i)], base=st):
                if r.kind != "return":
                    out.append((r.state.cond, r.kind + ": " + r.note, None, r.state.events, []))
                    continue
                f = anchor_faults(r.state.events, i)
                if f:
                    out.append((r.state.cond, "anchor", None, r.state.events, f))
                elif r.value.name == "Ok":
                    nxt.append(r.state)
                else:
                    out.append((r.state.cond, "err", None, r.state.events, []))
        states = nxt
    fin = it.api_body("Decoder", "finish")
    for st in states:
        for r in it.call(fin, [st.store["g:codec"]], base=st):
            if r.kind != "return":
                out.append((r.state.cond, r.kind + ": " + r.note, None, r.state.events, []))
            elif r.value.name == "Ok":
                out.append((r.state.cond, "ok", output_of(r.state.events), r.state.events, []))
            else:
                out.append((r.state.cond, "err", None, r.state.events, []))
    return out


PROD = (252, 64008)


def windowed(L, sym, fill=0):
    return [Sym("b%d" % i, 8) if i in sym else fill for i in range(L)]


class ApiProduction(CodecJob):
    """Public hcobs::Encoder / hcobs::Decoder (lib.rs wrappers, PROD_PARAMS evaluated from the MIR) against the
    format with the documented limits 252 / 64008, including inputs that cross both chunk-size boundaries."""
    name = "c07::public_api_production_limits[mirx]"
    pid = "C07"

    def __init__(self, tier="quick", seed=0, pid="C07", name=None):
        CodecJob.__init__(self, tier, seed)
        self.pid = pid
        if name:
            self.name = name

    def configs(self):
        quick = self.tier == "quick"
        # short inputs, every byte symbolic
        for L in (range(0, 5) if quick else range(0, 7)):
            for cut in (sorted({0, L // 2}) if quick else range(0, L + 1)):
                yield {"side": "enc", "L": L, "sym": list(range(L)), "fill": 0, "cuts": [cut], "methods": ("borrow", "copy")}
                yield {"side": "dec", "L": L, "sym": list(range(L)), "fill": 0, "cuts": [cut], "methods": ("copy", "borrow")}
        # first-chunk boundary: 252
        w = [0, 1, 250, 251, 252, 253, 254] if quick else [0, 1, 250, 251, 252, 253, 254, 255, 256]
        for cut in ((130,) if quick else (130, 251, 253)):
            yield {"side": "enc", "L": 257, "sym": w, "fill": 0, "cuts": [cut], "methods": ("borrow", "copy")}
        yield {"side": "enc", "L": 252, "sym": [250, 251], "fill": 7, "cuts": [100], "methods": ("copy", "borrow")}
        # second chunk of exactly 253 / 506 / 254 bytes (header digits at a radix boundary)
        for n2 in ((253,) if quick else (253, 254, 506, 505)):
            yield {"side": "enc", "L": 252 + n2, "sym": [251, 252, 252 + n2 - 1], "fill": 7, "cuts": [252], "methods": ("copy", "borrow")}
        # subsequent-chunk boundary: 64008 bytes after a full first chunk
        B = 252 + 64008
        w2 = [251, 252, B - 3, B - 2, B - 1, B, B + 1, B + 2]
        yield {"side": "enc", "L": B + 4, "sym": w2 if not quick else w2[2:], "fill": 0, "cuts": [B - 1], "methods": ("borrow", "copy")}
        # decoder: streams whose headers announce sizes at and around the limits
        for h0 in (252, 251, 253):
            # [h0] + h0 bytes + second header + a few bytes
            L = 1 + min(h0, 252) + 2 + 3
            yield {"side": "dec", "L": L, "sym": [1, 2, L - 5, L - 4, L - 3, L - 2, L - 1], "fill": 1, "cuts": [L - 4], "methods": ("borrow", "copy"), "fixed": {0: h0}}
        # a short first chunk, then a two-byte header with BOTH digits symbolic and enough payload for every size up to 258
        for h0, P in (((0, 253), (0, 254)) if quick else ((0, 252), (0, 253), (0, 254), (0, 255), (0, 506), (2, 253), (251, 253))):
            L = 1 + h0 + 2 + P
            yield {"side": "dec", "L": L, "sym": [h0 + 1, h0 + 2, h0 + 3, L - 1], "fill": 1, "cuts": [h0 + 2], "methods": ("copy", "borrow"), "fixed": {0: h0}}
        for (d0, d1) in ((252, 252), (251, 252), (0, 253), (253, 0)) if not quick else ((252, 252), (0, 253)):
            size = d0 + 253 * d1 if d0 < 253 and d1 < 253 else 0
            L = 1 + 252 + 2 + min(size, 64008) + 3
            fixed = {0: 252, 253: d0, 254: d1}
            yield {"side": "dec", "L": L, "sym": [1, 2, L - 3, L - 2, L - 1], "fill": 1, "cuts": [300 if L > 300 else L // 2], "methods": ("borrow", "copy"), "fixed": fixed}

    def bounds(self):
        return ("public Encoder::{new_from_iovec,encode,encode_copy,finish} and Decoder::{new_from_iovec,decode,decode_copy,finish} with PROD_PARAMS evaluated from the MIR: every byte string of length <= 4 (quick) / 6 (thorough); "
                "inputs of 252..64270 bytes whose bytes are symbolic in windows around offsets 0, 252 and 252+64008 and constant elsewhere; encoded streams whose size headers are 251/252/253 and (252,252)/(251,252)/(0,253)/(253,0) with symbolic payload windows")

    def check(self, mod, cfg, q):
        L, cuts, methods = cfg["L"], cfg["cuts"], cfg["methods"]
        it, decls0 = make_interp(mod, 0)
        data = windowed(L, set(cfg["sym"]), cfg.get("fill", 0))
        for k, v in cfg.get("fixed", {}).items():
            data[k] = v
        decls = ["(declare-const b%d (_ BitVec 8))" % i for i in sorted(set(cfg["sym"]) - set(cfg.get("fixed", {}))) if i < L]
        it.z3.close()
        from mirx import Interp
        it = Interp(mod, consts={"STUFF": Slice([0xFE, 0xFD], "STUFF"), "STUFF_SEQUENCE": Slice([0xFE, 0xFD], "STUFF")}, decls=decls, max_steps=400000)
        try:
            pp = it.named_const("PROD_PARAMS")
            got = (pp.get("max_initial_size"), pp.get("max_subsequent_size")) if pp is not None else None
            if cfg["side"] == "enc":
                impl = run_encoder_api(mod, it, data, cuts, methods)
                ref = ref_encode_cases(data, *PROD)
            else:
                impl = run_decoder_api(mod, it, data, cuts, methods)
                ref = ref_decode_cases(data, *PROD)
        finally:
            it.z3.close()
        tag = "%s-L%d-c%s-%s-w%s" % (cfg["side"], L, "_".join(map(str, cuts)), "".join(m[0] for m in methods), "_".join(map(str, cfg["sym"][:4])))
        if cfg.get("fixed"):
            tag += "-h" + "_".join(str(v) for v in cfg["fixed"].values())
        ob, viol = [], []
        alts = mismatch_formula([x[:4] for x in impl], ref, cfg["side"] == "enc")
        if cfg["side"] == "enc":
            bound = L + 1 + 2 * ((L + 64007) // 64008)
            for ic, kind, iout, ev, _f in impl:
                c = AND(*ic)
                if c is False or kind != "ok" or iout is None:
                    continue
                bad = len(iout) > bound or max_lag(ev)[0] > 64008 + 2 or max_lag(ev)[1] > 1
                if not bad:
                    for i in range(len(iout) - 1):
                        s = AND(byte_eq(iout[i], 0xFE), byte_eq(iout[i + 1], 0xFD))
                        if s is not False:
                            alts.append("true" if AND(c, s) is True else AND(c, s))
                else:
                    alts.append("true" if c is True else c)
        if alts:
            a, ans, model, path = q.ask("api-" + tag, decls, [mir.disj(alts)])
        else:
            a, model, path = "unsat", "", ""
        ob.append(("public API %s: == format at limits 252/64008 (PROD_PARAMS in the MIR = %r)%s" % (tag, got, ", stuff-free, size bound, lag bound" if cfg["side"] == "enc" else ""), a))
        if a == "sat":
            mv = mir.model_values(model)
            inp = [int(mv.get(x.term, 0)) if isinstance(x, Sym) else x for x in data]
            if cfg["side"] == "enc":
                exp = {"kind": "ok", "bytes": eval_ref_encode(inp, *PROD)}
            else:
                ok, out = eval_ref_decode(inp, *PROD)
                exp = {"kind": "ok" if ok else "err", "bytes": out}
            viol.append({"desc": "public %s disagrees with the format at production limits" % ("Encoder" if cfg["side"] == "enc" else "Decoder"), "side": "encode" if cfg["side"] == "enc" else "decode",
                         "input": inp, "cuts": cuts, "methods": list(methods), "limits": list(PROD), "expected": exp, "smt2": path})
        cov = [AND(*x[0]) for x in impl]
        cov = ["true" if c is True else c for c in cov if c is not False]
        a2, _, _, _ = q.ask("api-cov-" + tag, decls, ["(not %s)" % mir.disj(cov)], get_model=False) if cov else ("sat", None, "", "")
        ob.append(("public API %s: the enumerated paths cover every input" % tag, a2))
        return ob, viol, {"config": {k: (v if k != "sym" else v[:12]) for k, v in cfg.items()}, "implementation_paths": len(impl), "reference_cases": len(ref)}, len(impl)

    def functions(self):
        return CodecJob.functions(self) + ["hcobs::{Encoder,Decoder}::{new_from_iovec,encode,encode_copy,encode_anchored,decode,decode_copy,decode_anchored,finish} (MIR, hcobs/src/lib.rs)",
                                           "hcobs::PROD_PARAMS, <EncoderState as Default>::default, <DecoderState as Default>::default (MIR)"]


class Anchors(ApiProduction):
    """C05 for the codec wrappers: bytes pushed by reference from an AnchoredSlice are always accompanied by its Anchor."""
    name = "c05::codec_anchors[mirx]"

    def __init__(self, tier="quick", seed=0):
        ApiProduction.__init__(self, tier, seed, pid="C05", name=Anchors.name)

    def configs(self):
        quick = self.tier == "quick"
        # pieces long enough for OwningIovec::push to keep a reference (> SMALL_COPY bytes), symbolic at both ends.
        # First: an anchored piece of 200 bytes arriving when the iovec's own first arena chunk is nearly full (3950 bytes copied before).
        yield {"side": "enc", "L": 4150, "sym": [0, 1, 3950, 4149], "fill": 3, "cuts": [3950], "methods": ("copy", "anchored")}
        for L in ((300, 100) if quick else (300, 65, 100, 256, 257)):
            yield {"side": "enc", "L": L, "sym": [0, 1, L - 2, L - 1], "fill": 3, "cuts": [L], "methods": ("anchored", "copy")}
            yield {"side": "enc", "L": 2 * L, "sym": [0, L - 1, L, 2 * L - 1], "fill": 3, "cuts": [L], "methods": ("anchored", "anchored")}
            yield {"side": "enc", "L": L + 2, "sym": [0, 1, 2, L + 1], "fill": 3, "cuts": [2], "methods": ("copy", "anchored")}
        # decoder: a chunk of h0 bytes (pushed by reference) followed by a symbolic header, so that the error paths are taken after the push
        yield {"side": "dec", "L": 1 + 252 + 2 + 300 + 2, "sym": [1, 2, 255, 256, 555, 556], "fill": 3, "cuts": [557], "methods": ("anchored", "copy"), "fixed": {0: 252, 253: 300 % 253, 254: 300 // 253}}
        for h0 in ((252, 100) if quick else (252, 65, 100, 200)):
            L = 1 + h0 + 4
            yield {"side": "dec", "L": L, "sym": [1, 2, h0 + 1, h0 + 2, h0 + 3, h0 + 4], "fill": 3, "cuts": [L], "methods": ("anchored", "copy"), "fixed": {0: h0}}
            yield {"side": "dec", "L": L, "sym": [1, h0 + 1, h0 + 2, h0 + 3], "fill": 3, "cuts": [h0 + 2], "methods": ("anchored", "anchored"), "fixed": {0: h0}}
        for side in ("enc", "dec"):
            for L in (range(0, 4) if quick else range(0, 6)):
                for cut in range(0, L + 1):
                    for ms in (("anchored", "copy"), ("copy", "anchored"), ("anchored", "anchored")):
                        yield {"side": side, "L": L, "sym": list(range(L)), "cuts": [cut], "methods": ms}

    def bounds(self):
        return ("public Encoder::encode_anchored / Decoder::decode_anchored (MIR): every byte string of length <= 3 (quick) / 5 (thorough), every cut, anchored first / second / both pieces; anchored pieces of 65..600 bytes (symbolic at both ends) and encoded streams with a 65..252-byte chunk followed by a symbolic header: "
                "on every path (including decode errors) a piece with more than SMALL_COPY (read from owning_iovec's MIR) bytes pushed by reference has its Anchor handed to OwningIovec::push_anchor and never dropped")

    def check(self, mod, cfg, q):
        L, cuts, methods = cfg["L"], cfg["cuts"], cfg["methods"]
        data = windowed(L, set(cfg["sym"]), cfg.get("fill", 0))
        for k, v in cfg.get("fixed", {}).items():
            data[k] = v
        decls = ["(declare-const b%d (_ BitVec 8))" % i for i in sorted(set(cfg["sym"]) - set(cfg.get("fixed", {}))) if i < L]
        from mirx import Interp
        it = Interp(mod, consts={"STUFF": Slice([0xFE, 0xFD], "STUFF"), "STUFF_SEQUENCE": Slice([0xFE, 0xFD], "STUFF")}, decls=decls, max_steps=400000)
        try:
            impl = (run_encoder_api if cfg["side"] == "enc" else run_decoder_api)(mod, it, data, cuts, methods)
            ref = ref_encode_cases(data, *PROD) if cfg["side"] == "enc" else ref_decode_cases(data, *PROD)
        finally:
            it.z3.close()
        tag = "%s-L%d-c%s-%s" % (cfg["side"], L, "_".join(map(str, cuts)), "".join(m[0] for m in methods))
        ob, viol = [], []
        alts = []
        for ic, kind, _o, _e, faults in impl:
            c = AND(*ic)
            if c is False:
                continue
            if kind == "anchor" or kind not in ("ok", "err"):
                alts.append("true" if c is True else c)
        alts += mismatch_formula([x[:4] for x in impl if x[1] in ("ok", "err")], ref, cfg["side"] == "enc")
        if alts:
            a, ans, model, path = q.ask("anch-" + tag, decls, [mir.disj(alts)])
        else:
            a, model, path = "unsat", "", ""
        ob.append(("anchors %s: borrowed bytes always travel with their anchor; output == format" % tag, a))
        if a == "sat":
            mv = mir.model_values(model)
            inp = [int(mv.get(x.term, 0)) if isinstance(x, Sym) else x for x in data]
            viol.append({"desc": "bytes borrowed from an AnchoredSlice are exposed without their Anchor", "side": "anchors-" + cfg["side"], "input": inp, "cuts": cuts, "methods": list(methods),
                         "limits": list(PROD), "expected": {"kind": "err", "bytes": []}, "smt2": path})
        cov = [AND(*x[0]) for x in impl]
        cov = ["true" if c is True else c for c in cov if c is not False]
        a2, _, _, _ = q.ask("anch-cov-" + tag, decls, ["(not %s)" % mir.disj(cov)], get_model=False) if cov else ("sat", None, "", "")
        ob.append(("anchors %s: the enumerated paths cover every input" % tag, a2))
        return ob, viol, {"config": {k: (v if k != "sym" else v[:12]) for k, v in cfg.items()}, "implementation_paths": len(impl)}, len(impl)


# ---------------------------------------------------------------------------
# C06: StreamReader::next_record_bytes over the pump contract

def stream_body(mod, fn):
    c = [b[-1] for k, b in mod.bodies.items() if k.startswith("stream_reader::") and k.endswith("::" + fn)]
    if len(c) != 1:
        raise Unsupported("cannot find stream_reader::%s (%d candidates)" % (fn, len(c)))
    return c[0]


def record_of(events):
    """Bytes of the record being returned: what was appended since the last clear()."""
    last = 0
    for i, e in enumerate(events):
        if e[0] == "clear":
            last = i + 1
    return output_of(events[last:])


def run_stream_reader(mod, it, stream, max_size, limit, max_calls=None):
    """Calls StreamReader::next_record_bytes (MIR) until it returns None / an error, on every path.
    Returns [(conds, [(bytes, (start, end)), ...], end_kind, faults)]."""
    U64MAX, USIZEMAX = (1 << 64) - 1, (1 << 64) - 1
    judge_fn = stream_body(mod, "chunk_judge")
    nrb = stream_body(mod, "next_record_bytes")
    res = it.call(judge_fn, [USIZEMAX if max_size is None else max_size, Adt("None", []) if limit is None else Adt("Some", [limit])])
    if len(res) != 1 or res[0].kind != "return":
        raise Unsupported("chunk_judge did not evaluate")
    judge = res[0].value
    st0 = res[0].state
    st0.events = []
    st0.store["g:sr"] = Adt("StreamReader", {"iovec": Adt("OwningIovec", {}), "chunker": Adt("StreamChunker", {"rest": Slice(list(stream), "stream"), "offset": 0}), "last_sentinel_offset": 0})
    work = [(st0, [])]
    out = []
    max_calls = max_calls or (len(stream) + 3)
    for _round in range(max_calls):
        nxt = []
        for st, recs in work:
            for r in it.call(nrb, [Ref("g:sr"), Adt("reader", {}), judge, Adt("None", [])], base=st):
                if r.kind != "return":
                    out.append((r.state.cond, recs, r.kind + ": " + r.note, []))
                    continue
                v = r.value
                if v.name == "Err":
                    out.append((r.state.cond, recs, "io-error", []))
                    continue
                opt = v.fields[0]
                if opt.name == "None":
                    out.append((r.state.cond, recs, "buffers a skipped record" if buffered_after_skip(r.state.events, max_size) else "eof", []))
                    continue
                tup = opt.fields[0]
                rng = tup.fields[1]
                rec = record_of(r.state.events)
                faults = anchor_faults_all(r.state.events)
                if rec is None:
                    out.append((r.state.cond, recs, "pending placeholder in a returned record", []))
                    continue
                if faults:
                    out.append((r.state.cond, recs, "anchor", faults))
                    continue
                if buffered_after_skip(r.state.events, max_size):
                    out.append((r.state.cond, recs, "buffers a skipped record", []))
                    continue
                nxt.append((r.state, recs + [(rec, (rng.get("start"), rng.get("end")))]))
        work = nxt
        if not work:
            break
    for st, recs in work:
        out.append((st.cond, recs, "call bound exceeded", []))
    return out


def anchor_faults_all(events):
    """As anchor_faults, for every anchor id that appears, restricted to the record in progress (since the last clear)."""
    last = 0
    for i, e in enumerate(events):
        if e[0] == "clear":
            last = i + 1
    ev = events[last:]
    small = small_copy()
    bad = []
    ids = {int(e[2][4:]) for e in ev if e[0] in ("push", "push_borrowed") and len(e) > 2 and str(e[2]).startswith("anch")}
    for i in ids:
        tag = "anch%d" % i
        borrowed = any((e[0] == "push_borrowed" and len(e[1]) > 0 or e[0] == "push" and len(e[1]) > small) and len(e) > 2 and e[2] == tag for e in ev)
        kept = any(e[0] == "push_anchor" and e[1] == i for e in ev)
        if borrowed and not kept:
            bad.append(i)
    return bad


def buffered_after_skip(events, max_size):
    """True when, inside one record (between two clear()s), the judge has seen more than max_size decoded bytes
    (its verdict is then SkipRecord) and the iovec kept growing afterwards: a skipped record must not be buffered."""
    if max_size is None:
        return False
    over = None
    for e in events:
        if e[0] == "clear":
            over = None
        elif e[0] == "consumer":
            if over is not None and e[1] > over:
                return True
            if over is None and e[1] > max_size:
                over = e[1]
    return False


def ref_record_cases(stream, max_size, limit):
    """Reference: split at every FE FD (leftmost first), decode each non-empty segment with the format's decoder at
    production limits, drop invalid ones and those longer than max_size, stop at the first segment starting at or after limit."""
    n = len(stream)
    cases = []
    U = (1 << 64) - 1
    max_size = U if max_size is None else max_size
    limit = U if limit is None else limit

    def stuff_at(i):
        if i + 1 >= n:
            return False
        return AND(byte_eq(stream[i], 0xFE), byte_eq(stream[i + 1], 0xFD))

    def layouts(pos, conds, sent):
        # enumerate the positions of the sentinels
        i = pos
        while i < n:
            s = stuff_at(i)
            if s is False:
                i += 1
                continue
            if s is True:
                layouts_done = layouts(i + 2, conds, sent + [i])
                return
            layouts(i + 2, conds + [s], sent + [i])
            conds = conds + [NOT(s)]
            i += 1
        segs = []
        lo = 0
        for sp in sent:
            if sp > lo:
                segs.append((lo, sp))
            lo = sp + 2
        if n > lo:
            segs.append((lo, n))
        records(segs, 0, conds, [])

    def records(segs, k, conds, recs):
        if k == len(segs) or segs[k][0] >= limit:
            cases.append((conds, recs))
            return
        lo, hi = segs[k]
        for dconds, ok, outb in ref_decode_cases(list(stream[lo:hi]), PROD[0], PROD[1]):
            c = AND(*dconds)
            if c is False:
                continue
            cc = conds + ([c] if c is not True else [])
            if ok and len(outb) <= max_size:
                records(segs, k + 1, cc, recs + [(outb, (lo, hi))])
            else:
                records(segs, k + 1, cc, recs)

    layouts(0, [], [])
    return cases


def eval_ref_records(stream, max_size, limit):
    n, U = len(stream), (1 << 64) - 1
    max_size = U if max_size is None else max_size
    limit = U if limit is None else limit
    sent, i = [], 0
    while i + 1 < n:
        if stream[i] == 0xFE and stream[i + 1] == 0xFD:
            sent.append(i)
            i += 2
        else:
            i += 1
    segs, lo = [], 0
    for sp in sent:
        if sp > lo:
            segs.append((lo, sp))
        lo = sp + 2
    if n > lo:
        segs.append((lo, n))
    recs = []
    for lo, hi in segs:
        if lo >= limit:
            break
        ok, outb = eval_ref_decode(list(stream[lo:hi]), *PROD)
        if ok and len(outb) <= max_size:
            recs.append((outb, (lo, hi)))
    return recs


def records_differ(a, b):
    if len(a) != len(b):
        return True
    ds = []
    for (x, rx), (y, ry) in zip(a, b):
        if tuple(rx) != tuple(ry):
            return True
        d = differ(x, y)
        if d is True:
            return True
        if d is not False:
            ds.append(d)
    if not ds:
        return False
    return ds[0] if len(ds) == 1 else "(or %s)" % " ".join(ds)


class StreamRecords(CodecJob):
    """C06: StreamReader::next_record_bytes (MIR) on top of the pump contract, against the reference record splitter."""
    name = "c06::stream_reader_records[mirx]"
    pid = "C06"

    def __init__(self, tier="quick", seed=0, pid="C06"):
        CodecJob.__init__(self, tier, seed)
        self.pid = pid
        self.name = "%s::stream_reader_records[mirx]" % pid.lower()

    def configs(self):
        quick = self.tier == "quick"
        U = None
        for L in (range(0, 6) if quick else range(0, 7)):
            yield {"L": L, "sym": list(range(L)), "max_size": U, "limit": U}
        for L in ((4,) if quick else (4, 5, 6)):
            for ms in (0, 1, 2):
                yield {"L": L, "sym": list(range(L)), "max_size": ms, "limit": U}
            for lim in range(0, L + 1):
                yield {"L": L, "sym": list(range(L)), "max_size": U, "limit": lim}
        # longer streams: fixed delimiters and headers, symbolic payload / garbage bytes
        FE, FD = 0xFE, 0xFD
        for fixed, sym in (
                ({0: 1, 2: FE, 3: FD, 4: 2, 7: FE, 8: FD}, [1, 5, 6, 9, 10]),                # rec FEFD rec FEFD tail
        ) + (() if quick else (
                ({2: FE, 3: FD, 6: FE, 7: FD}, [0, 1, 4, 5, 8, 9]),                           # three symbolic 2-byte segments
        )) + (
                ({0: FE, 1: FD, 2: FE, 3: FD, 6: FE, 7: FD}, [4, 5, 8]),                       # leading run of delimiters
        ):
            L = max(list(fixed) + sym) + 1
            yield {"L": L, "sym": sym, "fixed": fixed, "max_size": U, "limit": U, "splits": "ends"}

    def bounds(self):
        return ("StreamReader::next_record_bytes called until it returns None, with StreamChunker::pump replaced by the contract C08 decides (every admissible chunking of the stream: every length of every Data chunk), "
                "chunk_judge closure from its MIR: EVERY byte stream of length <= 5 (quick) / 6 (thorough) with no limits; length 4 (4-6) with max_record_size 0/1/2 and every limit_offset; "
                "10-11 byte streams with fixed delimiters / headers and symbolic payload and garbage bytes (Data chunks cut at their first byte, last byte or not at all)")

    def functions(self):
        return CodecJob.functions(self) + ["hcobs::stream_reader::StreamReader::{next_record_bytes, chunk_judge, chunk_judge::{closure#0}} (MIR), derived State::eq (MIR)",
                                           "stub: StreamChunker::pump = tiling contract (Sentinel exactly at FE FD, non-empty stuff-free Data prefixes of every admissible length, Eof) - decided for the real pump by C08",
                                           "stubs: OwningIovec::{clear, take, consumer, total_size} on the event log"]

    def check(self, mod, cfg, q):
        L = cfg["L"]
        data = windowed(L, set(cfg["sym"]), 0)
        for k, v in cfg.get("fixed", {}).items():
            data[k] = v
        decls = ["(declare-const b%d (_ BitVec 8))" % i for i in sorted(set(cfg["sym"]) - set(cfg.get("fixed", {}))) if i < L]
        from mirx import Interp
        it = Interp(mod, consts={"STUFF": Slice([0xFE, 0xFD], "STUFF"), "STUFF_SEQUENCE": Slice([0xFE, 0xFD], "STUFF")}, decls=decls, max_steps=400000)
        if cfg.get("splits") == "ends":
            it.pump_splits = lambda maxlen, st: sorted({1, maxlen - 1, maxlen} - {0})
        try:
            impl = run_stream_reader(mod, it, data, cfg["max_size"], cfg["limit"])
            ref = ref_record_cases(data, cfg["max_size"], cfg["limit"])
        finally:
            it.z3.close()
        tag = "L%d-m%s-l%s-%s" % (L, cfg["max_size"], cfg["limit"], "w" + "_".join(map(str, cfg["sym"][:4])) if cfg.get("fixed") else "all")
        ob, viol = [], []
        alts = []
        growth = []
        for ic, recs, kind, _f in impl:
            c = AND(*ic)
            if c is False:
                continue
            if kind == "buffers a skipped record":
                growth.append("true" if c is True else c)
                continue
            if kind != "eof":
                alts.append("true" if c is True else c)
                continue
            for rc, rrecs in ref:
                r = AND(*rc)
                if r is False:
                    continue
                d = records_differ(recs, rrecs)
                if d is False:
                    continue
                x = AND(c, r, None if d is True else d)
                if x is not False:
                    alts.append("true" if x is True else x)
        if alts:
            a, ans, model, path = q.ask("sr-" + tag, decls, [mir.disj(alts)])
        else:
            a, model, path = "unsat", "", ""
        ob.append(("stream reader %s: records and ranges == reference on every admissible chunking" % tag, a))
        if a == "sat":
            mv = mir.model_values(model)
            inp = [int(mv.get(x.term, 0)) if isinstance(x, Sym) else x for x in data]
            exp = eval_ref_records(inp, cfg["max_size"], cfg["limit"])
            viol.append({"desc": "StreamReader records differ from the delimited valid records of the stream", "side": "stream", "input": inp, "cuts": [], "methods": [],
                         "limits": list(PROD), "max_size": cfg["max_size"], "limit": cfg["limit"],
                         "expected": {"kind": "ok", "bytes": [], "records": [[list(b), list(r)] for b, r in exp]}, "smt2": path})
        if growth:
            a3, _ans, model3, path3 = q.ask("sr-grow-" + tag, decls, [mir.disj(growth)])
            ob.append(("stream reader %s: a record the judge skips is not buffered any further" % tag, a3))
            if a3 == "sat":
                mv = mir.model_values(model3)
                inp = [int(mv.get(x.term, 0)) if isinstance(x, Sym) else x for x in data]
                viol.append({"desc": "StreamReader keeps buffering a record after the judge said SkipRecord", "side": "stream-growth", "input": inp, "cuts": [], "methods": [],
                             "limits": list(PROD), "max_size": cfg["max_size"], "limit": cfg["limit"], "expected": {"kind": "nogrowth", "bytes": []}, "smt2": path3})
        elif cfg["max_size"] is not None:
            ob.append(("stream reader %s: a record the judge skips is not buffered any further" % tag, "unsat"))
        cov = [AND(*x[0]) for x in impl]
        cov = ["true" if c is True else c for c in cov if c is not False]
        a2, _, _, _ = q.ask("sr-cov-" + tag, decls, ["(not %s)" % mir.disj(cov)], get_model=False) if cov else ("sat", None, "", "")
        ob.append(("stream reader %s: the enumerated paths cover every stream" % tag, a2))
        self.records_seen = getattr(self, "records_seen", 0) + sum(len(r) for _c, r, k, _f in impl if k == "eof")
        return ob, viol, {"config": cfg, "implementation_paths": len(impl), "reference_cases": len(ref), "records_returned_over_all_paths": sum(len(r) for _c, r, k, _f in impl if k == "eof")}, len(impl)


class ReadWrappers(CodecJob):
    """C17 for the codec wrappers: Encoder::{read_n, encode_read} and Decoder::{read_n, decode_read} over the read_n contract."""
    name = "c17::codec_read_wrappers[mirx]"
    pid = "C17"

    def configs(self):
        quick = self.tier == "quick"
        for side in ("enc", "dec"):
            for L in (range(0, 4) if quick else range(0, 6)):
                for c1 in range(0, L + 2):
                    yield {"side": side, "L": L, "counts": [c1, L + 1]}
        yield {"side": "enc", "L": 300, "sym": [0, 1, 298, 299], "fill": 3, "counts": [300, 10]}
        yield {"side": "dec", "L": 257, "sym": [1, 2, 253, 254, 255, 256], "fill": 3, "fixed": {0: 252}, "counts": [255, 10]}

    def bounds(self):
        return ("Encoder::encode_read / Decoder::decode_read (and the read_n wrappers they call) twice in a row with ByteArena::read_n replaced by its contract (any k <= min(count, available) bytes delivered, or an error with nothing delivered): "
                "every reader content of length <= 3 (quick) / 5 (thorough), every first count 0..L+1, plus 300 / 257-byte contents: Ok(n) reports exactly the bytes delivered, the codec output is that of the delivered prefix, a failed read appends nothing")

    def functions(self):
        return CodecJob.functions(self) + ["hcobs::{Encoder,Decoder}::{read_n, encode_read, decode_read, encode_anchored, decode_anchored} (MIR)",
                                           "stub: ByteArena::read_n = its contract (decided for the real function by the Kani c17 jobs)"]

    def check(self, mod, cfg, q):
        L, counts, side = cfg["L"], cfg["counts"], cfg["side"]
        sym = set(cfg.get("sym", range(L)))
        data = windowed(L, sym, cfg.get("fill", 0))
        for k, v in cfg.get("fixed", {}).items():
            data[k] = v
        decls = ["(declare-const b%d (_ BitVec 8))" % i for i in sorted(sym - set(cfg.get("fixed", {}))) if i < L]
        from mirx import Interp
        it = Interp(mod, consts={"STUFF": Slice([0xFE, 0xFD], "STUFF"), "STUFF_SEQUENCE": Slice([0xFE, 0xFD], "STUFF")}, decls=decls, max_steps=400000)
        owner = "Encoder" if side == "enc" else "Decoder"
        fn = it.api_body(owner, "encode_read" if side == "enc" else "decode_read")
        alts, npaths = [], 0
        tag = "%s-L%d-n%s" % (side, L, "_".join(map(str, counts)))
        try:
            states = []
            for r in it.call(it.api_body(owner, "new_from_iovec"), [Adt("OwningIovec", {})]):
                r.state.store["g:codec"] = r.value
                states.append((r.state, 0, True))
            finals = []
            for cnt in counts:
                nxt = []
                for st, used, alive in states:
                    if not alive:
                        nxt.append((st, used, alive))
                        continue
                    before = len(st.events)
                    rd = Adt("reader", {"data": Slice(data[used:], "reader")})
                    for r in it.call(fn, [Ref("g:codec"), rd, cnt, 4], base=st):
                        npaths += 1
                        c = AND(*r.state.cond)
                        if c is False:
                            continue
                        if r.kind != "return":
                            alts.append("true" if c is True else c)
                            continue
                        new = r.state.events[before:]
                        rn = [e for e in new if e[0] == "read_n"]
                        delivered = rn[0][1] if rn else None
                        v = r.value
                        ok = True
                        if cnt == 0 and rn and delivered != 0:
                            ok = False
                        if delivered == "err":
                            # the read failed: the call fails and nothing else happened
                            ok = v.name == "Err" and len(new) == 1
                            nxt.append((r.state, used, False))
                        elif v.name == "Ok":
                            ok = ok and v.fields[0] == delivered and not anchor_faults_all([e for e in r.state.events])
                            nxt.append((r.state, used + delivered, True))
                        else:
                            # only the decoder may fail after a successful read (invalid data)
                            ok = ok and side == "dec" and v.fields[0].get("kind") == "other"
                            nxt.append((r.state, used + delivered, False))
                        if not ok:
                            alts.append("true" if c is True else c)
                states = nxt
            fin = it.api_body(owner, "finish")
            for st, used, alive in states:
                c0 = AND(*st.cond)
                if c0 is False:
                    continue
                if side == "enc":
                    for r in it.call(fin, [st.store["g:codec"]], base=st):
                        c = AND(*r.state.cond)
                        if r.kind != "return":
                            alts.append("true" if c is True else c)
                            continue
                        outb = output_of([e for e in r.state.events if e[0] != "read_n"])
                        for rc, rout in ref_encode_cases(data[:used], *PROD):
                            d = True if outb is None else differ(outb, rout)
                            x = AND(c, AND(*rc), None if d is True else d) if d is not False else False
                            if x is not False:
                                alts.append("true" if x is True else x)
                elif alive:
                    # decoder still healthy: what it decoded so far is what the reference decodes from the delivered prefix,
                    # whenever the reference accepts that prefix as a complete stream
                    for r in it.call(fin, [st.store["g:codec"]], base=st):
                        c = AND(*r.state.cond)
                        if r.kind != "return":
                            alts.append("true" if c is True else c)
                            continue
                        got_ok = r.value.name == "Ok"
                        outb = output_of([e for e in r.state.events if e[0] != "read_n"]) if got_ok else None
                        for rc, rok, rout in ref_decode_cases(data[:used], *PROD):
                            if got_ok != rok:
                                d = True
                            elif not rok:
                                d = False
                            else:
                                d = True if outb is None else differ(outb, rout)
                            x = AND(c, AND(*rc), None if d is True else d) if d is not False else False
                            if x is not False:
                                alts.append("true" if x is True else x)
        finally:
            it.z3.close()
        ob, viol = [], []
        if alts:
            a, ans, model, path = q.ask("rw-" + tag, decls, [mir.disj(alts)])
        else:
            a, model, path = "unsat", "", ""
        ob.append(("read wrappers %s: Ok(n) == bytes delivered, output == codec(delivered prefix), failed read appends nothing" % tag, a))
        if a == "sat":
            mv = mir.model_values(model)
            inp = [int(mv.get(x.term, 0)) if isinstance(x, Sym) else x for x in data]
            viol.append({"desc": "encode_read / decode_read disagree with read_n's contract composed with the codec", "side": "readwrap-" + side, "input": inp, "cuts": counts, "methods": [],
                         "limits": list(PROD), "expected": {"kind": "ok", "bytes": []}, "smt2": path})
        return ob, viol, {"config": {k: (v if k != "sym" else list(v)[:8]) for k, v in cfg.items()}, "paths": npaths}, npaths


def load_iovec_module():
    return mir.Module(mir.dump_mir("owning_iovec", os.path.join(WORK, "mir")))


class AdvanceSlices(CodecJob):
    """ConsumingIovec::advance_slices (MIR of owning_iovec) over a stubbed stable prefix: the byte count it asks
    GlobalDeque::consume_by_bytes to drop is min(count, bytes in the stable prefix), for EVERY count."""
    name = "c09::advance_slices_kernel[mirx]"
    pid = "C09"

    def __init__(self, tier="quick", seed=0, pid="C09"):
        CodecJob.__init__(self, tier, seed)
        self.pid = pid
        self.name = "%s::advance_slices_kernel[mirx]" % pid.lower()

    def configs(self):
        import itertools
        top = 3 if self.tier == "quick" else 4
        for n in range(0, top + 1):
            for lens in itertools.product((1, 2, 5) if n < 4 else (1, 3), repeat=n):
                yield {"stable": list(lens)}
                if n <= 2:
                    # the same stable prefix followed by a slice that holds `begin` final bytes, a pending placeholder and a tail
                    for begin in (0, 1, 3):
                        yield {"stable": list(lens), "pending": {"begin": begin, "len": 2, "tail": 1}}
        yield {"stable": [70, 300, 64008]}
        yield {"stable": [70, 300], "pending": {"begin": 100, "len": 2, "tail": 64008}}
        yield {"stable": [(1 << 63) - 1, (1 << 63) - 1, 7]}

    def bounds(self):
        return ("ConsumingIovec::advance_slices with OwningIovec::stable_prefix() stubbed to return slices of the given lengths (every vector of <= 3 (quick) / 4 (thorough) lengths from {1,2,5}, plus [70,300,64008] and two slices of 2^63-1 bytes), "
                "optionally followed by a slice holding 0/1/3/100 final bytes, a pending 2-byte placeholder (visible through the placeholder table's first() and total_size()) and a tail, "
                "and a symbolic 64-bit count: the argument handed to GlobalDeque::consume_by_bytes equals min(count, bytes in the slices BEFORE the placeholder's slice), and no arithmetic overflow panic is reachable")

    def functions(self):
        return ["owning_iovec::ConsumingIovec::advance_slices (MIR)", "stubs: OwningIovec::stable_prefix = a given list of slices; GlobalDeque::consume_by_bytes = records its argument; slice::Iter as a cursor; "
                "SortedDeque::first on the placeholder table = the modelled pending placeholder (or None); OwningIovec::total_size / GlobalDeque::logical_size = the modelled totals (nothing consumed before the call)"]

    def _run_shard(self, logdir, cfgs, idx):
        import smtengine
        q = smtengine.Queries(logdir, "%s-s%d" % (self.name.replace("::", "-").replace("[", "").replace("]", ""), idx), keep_unsat=False)
        out = {"obligations": [], "violations": [], "samples": [], "npaths": 0, "queries": 0, "solver_s": 0.0}
        try:
            mod = load_iovec_module()
            for cfg in cfgs:
                ob, viol, sample, paths = self.check(mod, cfg, q)
                out["obligations"] += ob
                out["violations"] += viol
                out["npaths"] += paths
                if sample and len(out["samples"]) < 3:
                    out["samples"].append(sample)
        except Unsupported as e:
            out["unsupported"] = str(e)
        out["queries"], out["solver_s"] = q.n, q.solver_s
        return out

    def check(self, mod, cfg, q):
        from mirx import Interp
        lens = cfg["stable"]
        decls = ["(declare-const count (_ BitVec 64))"]
        it = Interp(mod, decls=decls, max_steps=100000)
        it.exact_overflow = True
        body = [b[-1] for k, b in mod.bodies.items() if k.endswith("::advance_slices")]
        if len(body) != 1:
            raise Unsupported("cannot find advance_slices")
        st = State()
        # IoSlice values only matter through their length: represent each as a slice object of that length lazily
        pend = cfg.get("pending")
        total = sum(lens) + ((pend["begin"] + pend["len"] + pend["tail"]) if pend else 0)
        first = Adt("None", [])
        if pend:
            st.store["g:backref0"] = Adt("tuple", [sum(lens) + pend["begin"] + pend["len"],
                                                   Adt("Some", [Adt("BackrefInfo", {"slice_index": len(lens), "begin": pend["begin"], "len": pend["len"]})])])
            first = Adt("Some", [Ref("g:backref0")])
        # OwningIovec's fields in declaration order (slices, arena, backrefs), then the stub's own data
        st.store["g:iov"] = Adt("OwningIovec", {"slices": Adt("GlobalDeque", {"logical": total}), "arena": Adt("ByteArena", {}), "backrefs": Adt("SortedDeque", {"first": first}),
                                               "stable": Slice([LenSlice(n) for n in lens], "stable"), "total": total})
        st.store["g:ciov"] = Adt("ConsumingIovec", {"iov_ref": Ref("g:iov")})
        count = Sym("count", 64)
        try:
            res = it.call(body[0], [Ref("g:ciov"), count], base=st)
        finally:
            it.z3.close()
        total = sum(lens)
        alts = []
        for r in res:
            c = AND(*r.state.cond)
            if c is False:
                continue
            if r.kind != "return":
                alts.append("true" if c is True else c)
                continue
            ev = [e for e in r.state.events if e[0] == "consume_by_bytes"]
            if len(ev) != 1:
                alts.append("true" if c is True else c)
                continue
            n = ev[0][1]
            nt = n.term if isinstance(n, Sym) else bvconst(n, 64)
            if total >= 1 << 64:
                want = "count"
            else:
                want = "(ite (bvult count %s) count %s)" % (bvconst(total, 64), bvconst(total, 64))
            alts.append(AND(c, "(not (= %s %s))" % (nt, want)))
        tag = "adv-" + "_".join(map(str, lens))[:60] + ("-p%d" % cfg["pending"]["begin"] if cfg.get("pending") else "")
        a, ans, model, path = q.ask(tag, decls, [mir.disj(alts)]) if alts else ("unsat", None, "", "")
        ob = [("advance_slices over stable prefix %r: consumed == min(count, %d) for every count" % (lens[:6], total), a)]
        viol = []
        if a == "sat":
            mv = mir.model_values(model)
            cnt = int(mv.get("count", 0))
            viol.append({"desc": "advance_slices consumes a byte count other than min(count, stable bytes)", "side": "advance", "input": [], "cuts": list(lens), "methods": [], "limits": list(PROD),
                         "count": cnt, "pending": cfg.get("pending"), "expected": {"kind": "ok", "bytes": [], "consumed": min(cnt, total)}, "smt2": path})
        cov = [AND(*r.state.cond) for r in res]
        cov = ["true" if c is True else c for c in cov if c is not False]
        a2, _, _, _ = q.ask(tag + "-cov", decls, ["(not %s)" % mir.disj(cov)], get_model=False) if cov else ("sat", None, "", "")
        ob.append(("advance_slices over %r: the enumerated paths cover every count" % (lens[:6],), a2))
        return ob, viol, {"config": cfg, "paths": len(res)}, len(res)


class _LenOnly:
    def __init__(self, n):
        self.n = n

    def __len__(self):
        return self.n


class LenSlice(Slice):
    """A slice of which only the length matters (its elements are never read)."""
    __slots__ = ()

    def __init__(self, n):
        self.elems = _LenOnly(n)
        self.tag = "io"


class FindStuffSequence(CodecJob):
    """hcobs::find_stuff_sequence from its MIR against the contract the other Engine X jobs substitute for it."""
    name = "c07::find_stuff_sequence_contract[mirx]"
    pid = "C07"

    def __init__(self, tier="quick", seed=0, pid="C07"):
        CodecJob.__init__(self, tier, seed)
        self.pid = pid
        self.name = "%s::find_stuff_sequence_contract[mirx]" % pid.lower()

    def configs(self):
        top = 10 if self.tier == "quick" else 13
        for L in range(0, top + 1):
            yield {"L": L, "sym": list(range(L))}
        for L, sym in ((40, [0, 1, 14, 15, 16, 17, 31, 32, 33, 38, 39]), (70, [15, 16, 17, 31, 32, 47, 48, 63, 64, 65, 69]), (300, [0, 127, 128, 129, 255, 256, 257, 298, 299])):
            for fill in (0, 0xFE, 0xFD):
                yield {"L": L, "sym": sym, "fill": fill}

    def bounds(self):
        return ("hcobs::find_stuff_sequence (MIR: windows(2).enumerate() loop) returns the index of the first FE FD or None for EVERY byte string of length <= 10 (quick) / 13 (thorough), "
                "and for 40 / 70 / 300-byte strings that are symbolic around offsets 16, 32, 48, 64, 128, 256 and constant (00, FE or FD) elsewhere")

    def functions(self):
        return ["hcobs::find_stuff_sequence (MIR)", "slice::windows / Enumerate::next as cursors, <&[u8] as PartialEq<[u8; 2]>>::eq as a symbolic comparison"]

    def check(self, mod, cfg, q):
        from mirx import Interp
        L = cfg["L"]
        data = windowed(L, set(cfg["sym"]), cfg.get("fill", 0))
        decls = ["(declare-const b%d (_ BitVec 8))" % i for i in sorted(set(cfg["sym"])) if i < L]
        it = Interp(mod, consts={"STUFF": Slice([0xFE, 0xFD], "STUFF"), "STUFF_SEQUENCE": Slice([0xFE, 0xFD], "STUFF")}, decls=decls, max_steps=400000)
        it.real_fss = True
        body = [b[-1] for k, b in mod.bodies.items() if k == "find_stuff_sequence" or k.endswith("::find_stuff_sequence")]
        if len(body) != 1:
            raise Unsupported("cannot find find_stuff_sequence")
        try:
            res = it.call(body[0], [Slice(data, "in")])
        finally:
            it.z3.close()
        alts = []

        def first_is(i):
            cs = []
            for j in range(i):
                s = AND(byte_eq(data[j], 0xFE), byte_eq(data[j + 1], 0xFD))
                cs.append(NOT(s))
            cs.append(AND(byte_eq(data[i], 0xFE), byte_eq(data[i + 1], 0xFD)))
            return AND(*cs)

        for r in res:
            c = AND(*r.state.cond)
            if c is False:
                continue
            if r.kind != "return":
                alts.append("true" if c is True else c)
                continue
            v = r.value
            if v.name == "Some":
                i = v.fields[0]
                ok = first_is(i) if (isinstance(i, int) and 0 <= i < L - 1) else False
            else:
                ok = AND(*[NOT(AND(byte_eq(data[j], 0xFE), byte_eq(data[j + 1], 0xFD))) for j in range(max(L - 1, 0))])
            bad = NOT(ok)
            x = AND(c, None if bad is True else bad) if bad is not False else False
            if x is not False:
                alts.append("true" if x is True else x)
        tag = "fss-L%d-f%s" % (L, cfg.get("fill", "s"))
        a, ans, model, path = q.ask(tag, decls, [mir.disj(alts)]) if alts else ("unsat", None, "", "")
        ob = [("find_stuff_sequence on %d bytes: first FE FD or None" % L, a)]
        viol = []
        if a == "sat":
            mv = mir.model_values(model)
            inp = [int(mv.get(x.term, 0)) if isinstance(x, Sym) else x for x in data]
            viol.append({"desc": "find_stuff_sequence does not return the first FE FD", "side": "fss", "input": inp, "cuts": [], "methods": [], "limits": list(PROD),
                         "expected": {"kind": "ok", "bytes": []}, "smt2": path})
        cov = [AND(*r.state.cond) for r in res]
        cov = ["true" if c is True else c for c in cov if c is not False]
        a2, _, _, _ = q.ask(tag + "-cov", decls, ["(not %s)" % mir.disj(cov)], get_model=False) if cov else ("sat", None, "", "")
        ob.append(("find_stuff_sequence on %d bytes: the enumerated paths cover every input" % L, a2))
        return ob, viol, {"config": {k: (v if k != "sym" else v[:8]) for k, v in cfg.items()}, "paths": len(res)}, len(res)
