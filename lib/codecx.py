"""HCOBS codec state machines vs an independent reference codec, decided by SMT (Engine X).

Implementation side: the rustc MIR of hcobs::encoder::EncoderState / hcobs::decoder::DecoderState
(dumped from /repo on every run) is executed by lib/mirx.py with symbolic payload bytes; every
path yields a path condition, an outcome and the sequence of OwningIovec sink events, from which
the produced byte string is reconstructed (placeholders filled by their backfills).
Reference side: the format written down independently in this file (greedy chunking, radix-253
headers, implicit stuff sequence after short chunks), also as (condition, output) cases.
Decision: z3 and cvc5 are asked whether any implementation path and any reference case overlap
with different results; unsat = the state machine agrees with the format for EVERY byte string of
the given length, segmentation and input method.
"""
import json
import os
import time

import mir
import mirx
from mirx import Adt, Interp, Ref, Slice, Sym, SymB, conj_all
from mir import Unsupported, bvconst

VERIF = os.path.dirname(os.path.dirname(os.path.abspath(__file__)))
WORK = os.path.join(VERIF, ".work")
RADIX = 253


def byte_eq(v, k):
    if isinstance(v, Sym):
        return "(= %s %s)" % (v.term, bvconst(k, 8))
    return v == k


def AND(*cs):
    out = []
    for c in cs:
        if c is True or c is None:
            continue
        if c is False:
            return False
        out.append(c)
    if not out:
        return True
    return out[0] if len(out) == 1 else "(and %s)" % " ".join(out)


def NOT(c):
    if c is True:
        return False
    if c is False:
        return True
    return "(not %s)" % c


def term8(v):
    return v.term if isinstance(v, Sym) else bvconst(v, 8)


# ---------------------------------------------------------------------------
# reference codec over symbolic bytes

def ref_encode_cases(data, a, b):
    """Canonical encoding of `data` (list of byte values): list of (conds, out_bytes)."""
    n = len(data)
    cases = []

    def stuff_at(i):
        if i + 1 >= n:
            return False
        return AND(byte_eq(data[i], 0xFE), byte_eq(data[i + 1], 0xFD))

    def chunk(pos, first, maxsz, conds, out):
        # scan for the end of this chunk
        def scan(size, conds):
            if not (size < maxsz and pos + size < n):
                finish(size, False, conds)
                return
            s = stuff_at(pos + size) if size + 2 <= maxsz else False
            if s is False:
                scan(size + 1, conds)
            elif s is True:
                finish(size, True, conds)
            else:
                finish(size, True, conds + [s])
                scan(size + 1, conds + [NOT(s)])

        def finish(size, by_stuff, conds):
            hdr = [size % RADIX] if first else [size % RADIX, size // RADIX]
            o = out + hdr + list(data[pos:pos + size])
            if by_stuff:
                chunk(pos + size + 2, False, b, conds, o)
            elif size == maxsz:
                chunk(pos + size, False, b, conds, o)
            else:
                cases.append((conds, o))

        scan(0, conds)

    chunk(0, True, a, [], [])
    return cases


def ref_decode_cases(enc, a, b):
    """Reference decoder: list of (conds, ok, out_bytes)."""
    n = len(enc)
    cases = []
    if n == 0:
        return [([], False, [])]

    def sized(pos, size_term_cases, limit, first, out, conds):
        """size_term_cases: function(k) -> condition that the announced size equals k; plus over-limit condition."""
        eqk, over, in_range_gt = size_term_cases
        avail = n - pos
        for k in range(0, min(avail, limit) + 1):
            c = eqk(k)
            if c is False:
                continue
            o = out + list(enc[pos:pos + k])
            nxt(pos + k, k < limit, o, conds + ([c] if c is not True else []))
        # announced size within the limit but more than what is left: cut short
        c = in_range_gt(min(avail, limit))
        if c is not False:
            cases.append((conds + ([c] if c is not True else []), False, []))
        c = over
        if c is not False:
            cases.append((conds + ([c] if c is not True else []), False, []))

    def nxt(pos, last_short, out, conds):
        if pos == n:
            cases.append((conds, bool(last_short), out))
            return
        o = out + ([0xFE, 0xFD] if last_short else [])
        d0 = enc[pos]
        bad0 = ge(d0, RADIX)
        if bad0 is not False:
            cases.append((conds + ([bad0] if bad0 is not True else []), False, []))
        ok0 = NOT(bad0)
        if ok0 is False:
            return
        c0 = conds + ([ok0] if ok0 is not True else [])
        if pos + 1 >= n:
            cases.append((c0, False, []))  # cut short mid-header
            return
        d1 = enc[pos + 1]
        bad1 = ge(d1, RADIX)
        if bad1 is not False:
            cases.append((c0 + ([bad1] if bad1 is not True else []), False, []))
        ok1 = NOT(bad1)
        if ok1 is False:
            return
        c1 = c0 + ([ok1] if ok1 is not True else [])
        size = "(bvadd ((_ zero_extend 24) %s) (bvmul ((_ zero_extend 24) %s) %s))" % (term8(d0), term8(d1), bvconst(RADIX, 32))
        sized(pos + 2, (lambda k: "(= %s %s)" % (size, bvconst(k, 32)), "(bvugt %s %s)" % (size, bvconst(b, 32)),
                        lambda m: "(and (bvugt %s %s) (bvule %s %s))" % (size, bvconst(m, 32), size, bvconst(b, 32))), b, False, o, c1)

    def ge(v, k):
        if isinstance(v, Sym):
            return "(bvuge %s %s)" % (v.term, bvconst(k, 8))
        return v >= k

    h = enc[0]
    ht = "((_ zero_extend 24) %s)" % term8(h)
    sized(1, (lambda k: "(= %s %s)" % (ht, bvconst(k, 32)), "(bvugt %s %s)" % (ht, bvconst(a, 32)),
              lambda m: "(and (bvugt %s %s) (bvule %s %s))" % (ht, bvconst(m, 32), ht, bvconst(a, 32))), a, True, [], [])
    return cases


# ---------------------------------------------------------------------------
# implementation side

def load_module():
    text = mir.dump_mir("hcobs", os.path.join(WORK, "mir"))
    return mir.Module(text)


def make_interp(mod, nbytes):
    consts = {"STUFF": Slice([0xFE, 0xFD], "STUFF"), "STUFF_SEQUENCE": Slice([0xFE, 0xFD], "STUFF")}
    decls = ["(declare-const b%d (_ BitVec 8))" % i for i in range(nbytes)]
    return Interp(mod, consts=consts, decls=decls), decls


def find_body(mod, prefix, fn, first_arg=None):
    c = [b[-1] for k, b in mod.bodies.items() if k.startswith(prefix) and k.endswith("::" + fn)
         and (first_arg is None or (b[-1].args and b[-1].args[0][1] == first_arg))]
    if len(c) != 1:
        raise Unsupported("cannot find %s%s (%d candidates)" % (prefix, fn, len(c)))
    return c[0]


def output_of(events):
    """Byte string produced by a sink event log; None when a placeholder was never backfilled."""
    out = []
    holes = {}
    for e in events:
        if e[0] == "register":
            holes[e[1]] = (len(out), e[2])
            out += [None] * e[2]
        elif e[0] in ("push", "push_copy", "push_borrowed"):
            out += list(e[1])
        elif e[0] == "backfill":
            if e[1] not in holes:
                return None
            off, n = holes.pop(e[1])
            out[off:off + n] = list(e[2])
    if holes or any(x is None for x in out):
        return None
    return out


def max_lag(events):
    """Largest number of bytes appended after the earliest pending placeholder, over the whole log; and max pending."""
    pending = {}
    total = 0
    worst = 0
    most = 0
    for e in events:
        if e[0] == "register":
            pending[e[1]] = total
            total += e[2]
        elif e[0] in ("push", "push_copy", "push_borrowed"):
            total += len(e[1])
        elif e[0] == "backfill":
            pending.pop(e[1], None)
        if pending:
            worst = max(worst, total - min(pending.values()))
        most = max(most, len(pending))
    return worst, most


def run_encoder(mod, it, data, cuts, methods, limits):
    """Returns list of (conds, kind, out_bytes, events)."""
    params = Adt("Parameters", {"max_initial_size": limits[0], "max_subsequent_size": limits[1]})
    iov = Ref("iovec")
    new = find_body(mod, "encoder::", "new")
    res = it.call(new, [iov, params])
    pieces = []
    lo = 0
    for c in list(cuts) + [len(data)]:
        pieces.append(data[lo:c])
        lo = c
    states = [(r.state, r.value) for r in res if r.kind == "return"]
    bad = [r for r in res if r.kind != "return"]
    for piece, meth in zip(pieces, methods):
        fn = find_body(mod, "encoder::", "encode_copy" if meth == "copy" else "encode_borrow", "EncoderState")
        nxt = []
        for st, val in states:
            rs = it.call(fn, [val, iov, params, Slice(piece, "in")], base=st)
            for r in rs:
                if r.kind == "return":
                    nxt.append((r.state, r.value))
                else:
                    bad.append(r)
        states = nxt
    term = find_body(mod, "encoder::", "terminate", "EncoderState")
    out = []
    for st, val in states:
        for r in it.call(term, [val, iov], base=st):
            if r.kind == "return":
                out.append((r.state.cond, "ok", output_of(r.state.events), r.state.events))
            else:
                bad.append(r)
    for r in bad:
        out.append((r.state.cond, r.kind + ": " + r.note, None, r.state.events))
    return out


def run_decoder(mod, it, enc, cuts, methods, limits):
    params = Adt("Parameters", {"max_initial_size": limits[0], "max_subsequent_size": limits[1]})
    iov = Ref("iovec")
    new = find_body(mod, "decoder::", "new")
    res = it.call(new, [])
    states = [(r.state, r.value) for r in res if r.kind == "return"]
    pieces = []
    lo = 0
    for c in list(cuts) + [len(enc)]:
        pieces.append(enc[lo:c])
        lo = c
    out = []
    for piece, meth in zip(pieces, methods):
        fn = find_body(mod, "decoder::", "decode_copy" if meth == "copy" else "decode_borrow", "DecoderState")
        nxt = []
        for st, val in states:
            for r in it.call(fn, [val, iov, params, Slice(piece, "in")], base=st):
                if r.kind != "return":
                    out.append((r.state.cond, r.kind + ": " + r.note, None, r.state.events))
                elif r.value.name == "Ok":
                    nxt.append((r.state, r.value.fields[0]))
                else:
                    out.append((r.state.cond, "err", None, r.state.events))
        states = nxt
    term = find_body(mod, "decoder::", "terminate", "DecoderState")
    for st, val in states:
        for r in it.call(term, [val], base=st):
            if r.kind != "return":
                out.append((r.state.cond, r.kind + ": " + r.note, None, r.state.events))
            elif r.value.name == "Ok":
                out.append((r.state.cond, "ok", output_of(r.state.events), r.state.events))
            else:
                out.append((r.state.cond, "err", None, r.state.events))
    return out


def differ(x, y):
    """SMT condition (or bool) that two byte strings differ."""
    if len(x) != len(y):
        return True
    ds = []
    for p, q in zip(x, y):
        if isinstance(p, int) and isinstance(q, int):
            if p != q:
                return True
            continue
        ds.append("(not (= %s %s))" % (term8(p), term8(q)))
    if not ds:
        return False
    return ds[0] if len(ds) == 1 else "(or %s)" % " ".join(ds)


def mismatch_formula(impl, ref, encoder):
    """OR over (impl path, reference case) pairs of: both conditions hold and the results differ."""
    alts = []
    for ic, kind, iout, _ev in impl:
        ict = AND(*ic)
        if ict is False:
            continue
        if kind not in ("ok", "err"):
            alts.append(ict if ict is not True else "true")   # a panic / unreachable path is a mismatch by itself
            continue
        for r in ref:
            if encoder:
                rc, rout = r
                rok = True
            else:
                rc, rok, rout = r
            rct = AND(*rc)
            if rct is False:
                continue
            if (kind == "ok") != bool(rok):
                d = True
            elif kind == "err":
                d = False
            else:
                d = True if iout is None else differ(iout, rout)
            if d is False:
                continue
            t = AND(ict, rct, d)
            if t is False:
                continue
            alts.append("true" if t is True else t)
    return alts


# ---------------------------------------------------------------------------
# jobs

def _res(name, **kw):
    import smtengine
    r = smtengine.result(name, "PASS")
    r["engine"] = "mir->path-enumerating interpreter (symbolic bytes)->smt (z3 4.8.12 + cvc5 1.0)"
    r.update(kw)
    return r


def sym_bytes(n):
    return [Sym("b%d" % i, 8) for i in range(n)]


METHOD_SETS = {"cc": ("copy", "copy"), "cb": ("copy", "borrow"), "bc": ("borrow", "copy"), "bb": ("borrow", "borrow")}


class CodecJob:
    """Base: iterates configurations, accumulates obligations / violations, produces one result."""
    name = "codec"
    pid = "C07"

    def __init__(self, tier="quick", seed=0):
        self.tier, self.seed = tier, seed

    def configs(self):
        raise NotImplementedError

    def check(self, mod, cfg, q):
        raise NotImplementedError

    def run(self, logdir):
        import smtengine
        t0 = time.time()
        q = smtengine.Queries(logdir, self.name.replace("::", "-").replace("[", "").replace("]", ""))
        obligations, violations, samples = [], [], []
        fns = set()
        npaths = 0
        try:
            mod = load_module()
            for cfg in self.configs():
                ob, viol, sample, paths = self.check(mod, cfg, q)
                obligations += ob
                violations += viol
                npaths += paths
                if sample and len(samples) < 6:
                    samples.append(sample)
                if violations:
                    break
        except Unsupported as e:
            return [_res(self.name, status="INCONCLUSIVE", reason="MIR construct outside the interpreter: %s" % e, wall=time.time() - t0)]
        inconc = [o for o in obligations if o[1] not in ("unsat", "sat-expected")]
        status, reason = "PASS", ""
        if violations:
            status = "VIOLATION"
        elif inconc:
            status, reason = "INCONCLUSIVE", "solver answers: " + "; ".join("%s=%s" % (o[0][:60], o[1]) for o in inconc[:3])
        r = _res(self.name, status=status, reason=reason, checks_total=len(obligations), checks_nontrivial=len(obligations),
                 checks_ok=sum(1 for o in obligations if o[1] in ("unsat", "sat-expected")), queries=q.n + 0, solver_s=q.solver_s,
                 functions=self.functions(), bounds=self.bounds(), samples=samples, failed=violations,
                 covers={"implementation paths enumerated": "SATISFIED" if npaths > 0 else "UNSATISFIABLE"},
                 obligations_detail=[{"obligation": o[0], "answer": o[1]} for o in obligations[:40]], paths=npaths, wall=time.time() - t0)
        if status == "VIOLATION":
            v = violations[0]
            r["signature"] = "codec " + v["desc"]
            art = save_case(self.pid, self.name, v)
            ok, detail = replay_case(art)
            r["reproduced"], r["artifact"], r["detail"] = ok, art, detail + "; " + v["desc"]
        return [r]

    def functions(self):
        return ["hcobs::encoder::EncoderState::{new,new_subsequent,encode_borrow,encode_copy,consume_once,write,copy,write_partial_stuff_sequence,encode_header,terminate} (MIR)",
                "hcobs::decoder::{DecoderState::{new,decode_borrow,decode_copy,terminate},InitialState::decode,BeforeChunk::decode,MidHeader::decode,InChunk::{decode_borrow,decode_copy,update}} (MIR)",
                "stubs: OwningIovec::{register_patch,push,push_copy,backfill_or_panic} = event log; hcobs::find_stuff_sequence = its contract (decided by Kani job fss::fss_first_occurrence)"]

    def bounds(self):
        return ""


def concrete_bytes(model, n):
    mv = mir.model_values(model)
    return [int(mv.get("b%d" % i, 0)) for i in range(n)]


def save_case(pid, name, v):
    import kanirun
    import re as _re
    d = os.path.join(VERIF, "replays" + kanirun.ALT, pid)
    os.makedirs(d, exist_ok=True)
    path = os.path.join(d, _re.sub(r"\W+", "_", name + "-" + v["desc"])[:110] + ".json")
    json.dump(v, open(path, "w"), indent=1, default=str)
    return path


def replay_case(art):
    """Native replay through the public Encoder / Decoder API (replay_drivers/hcobs)."""
    v = json.load(open(art))
    if "input" not in v:
        return None, "no concrete input recorded"
    import subprocess
    import shutil
    import kanirun
    base = os.path.join(VERIF, "replay_drivers", "hcobs")
    d = base
    if kanirun.ALT:
        d = os.path.join(WORK, "drivers" + kanirun.ALT, "hcobs")
        if os.path.exists(d):
            shutil.rmtree(d)
        shutil.copytree(base, d, ignore=shutil.ignore_patterns("target"))
        t = open(os.path.join(d, "Cargo.toml")).read().replace('"/repo/', '"%s/' % mir.REPO)
        open(os.path.join(d, "Cargo.toml"), "w").write(t)
    lock = os.path.join(mir.REPO, "Cargo.lock")
    if os.path.exists(lock):
        shutil.copyfile(lock, os.path.join(d, "Cargo.lock"))
    env = dict(os.environ)
    env["CARGO_NET_OFFLINE"] = "true"
    env["CARGO_TARGET_DIR"] = os.path.join(WORK, "target", "driver-hcobs" + kanirun.ALT)
    flags = "--cfg woodpile_verif --cfg woodpile_verif_hcobs_limits"
    env["RUSTFLAGS"] = flags
    env["WOODPILE_VERIF_HCOBS_LIMITS"] = "%d,%d" % tuple(v["limits"])
    args = [v["side"], ",".join(str(x) for x in v["input"]), ",".join(str(c) for c in v["cuts"]), ",".join(v["methods"])]
    p = subprocess.run(["cargo", "run", "--offline", "-q", "--"] + args, cwd=d, env=env, stdout=subprocess.PIPE, stderr=subprocess.STDOUT, text=True, timeout=900)
    out = p.stdout
    import re as _re
    m = _re.search(r"RESULT (\w+)(?: (.*))?", out)
    if not m:
        return None, "replay driver failed: " + out[-400:]
    got_kind, got_bytes = m.group(1), [int(x) for x in (m.group(2) or "").split(",") if x.strip()]
    want_kind, want_bytes = v["expected"]["kind"], v["expected"].get("bytes") or []
    if got_kind == "PANIC":
        return True, "native run panicked on input %r" % (v["input"],)
    if got_kind != want_kind or (got_kind == "ok" and got_bytes != want_bytes):
        return True, "native %s(%r, cuts %r, %r) -> %s %r, the format says %s %r" % (v["side"], v["input"], v["cuts"], v["methods"], got_kind, got_bytes, want_kind, want_bytes)
    return False, "native run agrees with the reference on %r" % (v["input"],)


def replay(pid, art):
    ok, detail = replay_case(art)
    return bool(ok), detail


def ref_concrete_encode(data, a, b):
    cs = ref_encode_cases(list(data), a, b)
    return [c for c in cs if not c[0]][0][1] if any(not c[0] for c in cs) else None


def ref_concrete_decode(enc, a, b):
    for conds, ok, out in ref_decode_cases(list(enc), a, b):
        if all(c is True for c in conds) or not conds:
            return ok, out
    # concrete inputs give concrete conditions only when every comparison folded; evaluate by brute force instead
    return None, None


def eval_ref_encode(data, a, b):
    """Concrete reference encoding (plain Python, same algorithm as ref_encode_cases)."""
    n, out, pos, first, mx = len(data), [], 0, True, a
    while True:
        size, by = 0, False
        while size < mx and pos + size < n:
            if data[pos + size] == 0xFE and pos + size + 1 < n and data[pos + size + 1] == 0xFD and size + 2 <= mx:
                by = True
                break
            size += 1
        out += ([size % RADIX] if first else [size % RADIX, size // RADIX]) + list(data[pos:pos + size])
        if by:
            pos += size + 2
        elif size == mx:
            pos += size
        else:
            return out
        first, mx = False, b


def eval_ref_decode(enc, a, b):
    n, out, pos, first, short = len(enc), [], 0, True, False
    if n == 0:
        return False, []
    while pos < n:
        if first:
            size, lim = enc[pos], a
            pos += 1
        else:
            if short:
                out += [0xFE, 0xFD]
            if enc[pos] >= RADIX or pos + 1 >= n or enc[pos + 1] >= RADIX:
                return False, []
            size, lim = enc[pos] + RADIX * enc[pos + 1], b
            pos += 2
        if size > lim or pos + size > n:
            return False, []
        out += list(enc[pos:pos + size])
        pos += size
        short, first = size < lim, False
    return bool(short), out


class EncoderVsReference(CodecJob):
    name = "c07::encoder_vs_reference[mirx]"
    pid = "C07"

    def configs(self):
        quick = self.tier == "quick"
        lims = [(2, 3), (1, 2), (1, 1), (3, 5)] if not quick else [(2, 3), (1, 2), (1, 1), (3, 5)][:3]
        Ls = range(0, 9) if not quick else range(0, 7)
        for lim in lims:
            for L in Ls:
                for cut in range(0, L + 1):
                    for ms in (("cb", "bc") if quick else ("cc", "cb", "bc", "bb")):
                        yield {"L": L, "cuts": [cut], "methods": METHOD_SETS[ms], "limits": lim}
        # three pieces
        for L in ((4, 5) if quick else (4, 5, 6, 7)):
            for c1 in range(0, L + 1):
                for c2 in range(c1, L + 1):
                    yield {"L": L, "cuts": [c1, c2], "methods": ("copy", "borrow", "copy"), "limits": (2, 3)}
        # production limits: short inputs
        for L in (0, 1, 3, 6):
            yield {"L": L, "cuts": [L // 2], "methods": ("borrow", "copy"), "limits": (252, 64008)}

    def bounds(self):
        return ("EncoderState output == canonical encoding for EVERY byte string of length L (quick 0..6, thorough 0..8), every cut into two pieces (three pieces for L 4..7), "
                "input methods per piece in {encode_copy, encode_borrow}, limits (1,1),(1,2),(2,3),(3,5) passed as Parameters, and the production limits for L <= 6")

    def check(self, mod, cfg, q):
        L, cuts, methods, lim = cfg["L"], cfg["cuts"], cfg["methods"], cfg["limits"]
        it, decls = make_interp(mod, max(L, 1))
        try:
            data = sym_bytes(L)
            impl = run_encoder(mod, it, data, cuts, methods, lim)
            ref = ref_encode_cases(data, lim[0], lim[1])
        finally:
            it.z3.close()
        tag = "L%d-c%s-%s-%d_%d" % (L, "_".join(map(str, cuts)), "".join(m[0] for m in methods), lim[0], lim[1])
        ob, viol = [], []
        alts = mismatch_formula(impl, ref, True)
        # stuff-free and size bound on the implementation's own outputs (C02)
        for ic, kind, iout, _ev in impl:
            if kind == "ok" and iout is not None:
                for i in range(len(iout) - 1):
                    c = AND(*(list(ic) + [byte_eq(iout[i], 0xFE), byte_eq(iout[i + 1], 0xFD)]))
                    if c is not False:
                        alts.append("true" if c is True else c)
        if alts:
            a, ans, model, path = q.ask("enc-" + tag, decls, [mir.disj(alts)], get_model=True)
        else:
            a, model, path = "unsat", "", ""
        ob.append(("encoder %s: output == reference, stuff-free" % tag, a))
        if a == "sat":
            inp = concrete_bytes(model, L)
            viol.append({"desc": "Encoder output differs from the canonical encoding (or contains FE FD)", "side": "encode", "input": inp, "cuts": cuts, "methods": list(methods),
                         "limits": list(lim), "expected": {"kind": "ok", "bytes": eval_ref_encode(inp, lim[0], lim[1])}, "smt2": path})
        cov = [AND(*ic) for ic, _, _, _ in impl]
        cov = ["true" if c is True else c for c in cov if c is not False]
        a2, _, model2, path2 = q.ask("enc-cov-" + tag, decls, ["(not %s)" % mir.disj(cov)], get_model=False) if cov else ("sat", None, "", "")
        ob.append(("encoder %s: the enumerated paths cover every input" % tag, a2))
        sample = {"config": cfg, "implementation_paths": len(impl), "reference_cases": len(ref), "example_path_output": [str(x) for x in (impl[0][2] or [])][:12]} if impl else None
        return ob, viol, sample, len(impl)


class DecoderVsReference(CodecJob):
    name = "c07::decoder_vs_reference[mirx]"
    pid = "C07"

    def configs(self):
        quick = self.tier == "quick"
        lims = [(2, 3), (1, 2), (252, 64008), (1, 1), (3, 5)]
        if quick:
            lims = lims[:3]
        Ls = range(0, 8) if not quick else range(0, 6)
        for lim in lims:
            for L in Ls:
                for cut in range(0, L + 1):
                    for ms in (("cb",) if quick else ("cc", "cb", "bc", "bb")):
                        yield {"L": L, "cuts": [cut], "methods": METHOD_SETS[ms], "limits": lim}

    def bounds(self):
        return ("DecoderState accepts exactly the well-formed strings and returns exactly the reference plain text for EVERY byte string of length L (quick 0..5, thorough 0..7), "
                "every cut into two pieces, input methods {decode_copy, decode_borrow}, tiny limits and the production limits 252 / 64008")

    def check(self, mod, cfg, q):
        L, cuts, methods, lim = cfg["L"], cfg["cuts"], cfg["methods"], cfg["limits"]
        it, decls = make_interp(mod, max(L, 1))
        try:
            data = sym_bytes(L)
            impl = run_decoder(mod, it, data, cuts, methods, lim)
            ref = ref_decode_cases(data, lim[0], lim[1])
        finally:
            it.z3.close()
        tag = "L%d-c%s-%s-%d_%d" % (L, "_".join(map(str, cuts)), "".join(m[0] for m in methods), lim[0], lim[1])
        ob, viol = [], []
        alts = mismatch_formula(impl, ref, False)
        # decoders never register placeholders (C09: zero lag)
        for ic, kind, _o, ev in impl:
            if any(e[0] == "register" for e in ev):
                c = AND(*ic)
                if c is not False:
                    alts.append("true" if c is True else c)
        if alts:
            a, ans, model, path = q.ask("dec-" + tag, decls, [mir.disj(alts)])
        else:
            a, model, path = "unsat", "", ""
        ob.append(("decoder %s: accept set and output == reference" % tag, a))
        if a == "sat":
            inp = concrete_bytes(model, L)
            ok, out = eval_ref_decode(inp, lim[0], lim[1])
            viol.append({"desc": "Decoder disagrees with the format", "side": "decode", "input": inp, "cuts": cuts, "methods": list(methods), "limits": list(lim),
                         "expected": {"kind": "ok" if ok else "err", "bytes": out}, "smt2": path})
        cov = [AND(*ic) for ic, _, _, _ in impl]
        cov = ["true" if c is True else c for c in cov if c is not False]
        a2, _, _, _ = q.ask("dec-cov-" + tag, decls, ["(not %s)" % mir.disj(cov)], get_model=False) if cov else ("sat", None, "", "")
        ob.append(("decoder %s: the enumerated paths cover every input" % tag, a2))
        sample = {"config": cfg, "implementation_paths": len(impl), "reference_cases": len(ref)}
        return ob, viol, sample, len(impl)
