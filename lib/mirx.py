"""Engine X: path-enumerating MIR interpreter with CONCRETE control data and SYMBOLIC bytes.

Used for the HCOBS codec state machines (hcobs::encoder::EncoderState,
hcobs::decoder::DecoderState): lengths, offsets, chunk counters and limits are
concrete Python integers, byte contents are SMT bit-vector terms; a branch on
a symbolic condition forks the path (both sides recorded in the path
condition).  Calls into OwningIovec are recorded as an event log (push /
push_copy / register_patch / backfill_or_panic): the iovec's own behaviour is
the business of C03/C04, here it is an abstract FIFO sink.  `find_stuff_sequence`
is replaced by its contract (first FE FD), which the C07 Kani job
fss::fss_first_occurrence decides for all strings <= 40 bytes.

Every construct outside the supported subset raises Unsupported (reported as
inconclusive, never as a pass).
"""
import re

import mir
from mir import Unsupported, split_top, balanced, INT_TYPES, bvconst


class Sym:
    """Symbolic integer (bit-vector term)."""
    __slots__ = ("term", "w")

    def __init__(self, term, w):
        self.term, self.w = term, w

    def __repr__(self):
        return "Sym(%s:%d)" % (self.term, self.w)


class SymB:
    __slots__ = ("term",)

    def __init__(self, term):
        self.term = term

    def __repr__(self):
        return "SymB(%s)" % self.term


class Slice:
    __slots__ = ("elems", "tag")

    def __init__(self, elems, tag=""):
        self.elems, self.tag = list(elems), tag

    def __repr__(self):
        return "Slice(%d,%s)" % (len(self.elems), self.tag)


class Adt:
    __slots__ = ("name", "fields")

    def __init__(self, name, fields):
        self.name, self.fields = name, fields  # fields: dict (ordered) or list

    def get(self, k):
        if isinstance(self.fields, dict):
            if k in self.fields:
                return self.fields[k]
            if str(k).isdigit():
                return list(self.fields.values())[int(k)]
            raise Unsupported("field %s of %s" % (k, self.name))
        return self.fields[int(k)]

    def with_field(self, k, v):
        if isinstance(self.fields, dict):
            f = dict(self.fields)
            if k not in f and str(k).isdigit():
                k = list(f.keys())[int(k)]
            f[k] = v
            return Adt(self.name, f)
        f = list(self.fields)
        f[int(k)] = v
        return Adt(self.name, f)

    def __repr__(self):
        return "Adt(%s,%r)" % (self.name, self.fields)


class Ref:
    __slots__ = ("key", "proj")

    def __init__(self, key, proj=()):
        self.key, self.proj = key, tuple(proj)

    def __repr__(self):
        return "Ref(%s%s)" % (self.key, self.proj)


UNIT = Adt("()", [])
VARIANT_INDEX = {"Ok": 0, "Err": 1, "None": 0, "Some": 1, "Continue": 0, "Break": 1,
                 "DecoderState::InitialState": 0, "DecoderState::BeforeChunk": 1, "DecoderState::MidHeader": 2, "DecoderState::InChunk": 3,
                 "State::SkipSentinel": 0, "State::DecodeRecord": 1, "State::SkipRecord": 2,
                 "StreamAction::KeepGoing": 0, "StreamAction::SkipRecord": 1, "StreamAction::Stop": 2,
                 "Chunk::Sentinel": 0, "Chunk::Eof": 1, "Chunk::Data": 2}
QUALIFIED_ENUMS = ("State", "StreamAction", "Chunk")


def width_of(ty):
    ty = ty.strip()
    if ty in INT_TYPES:
        return INT_TYPES[ty]
    return None


class State:
    def __init__(self):
        self.store = {}
        self.frames = []     # list of dicts: body, bb, idx, fid, dst (caller place text), ret_bb
        self.cond = []
        self.events = []
        self.steps = 0

    def fork(self):
        s = State()
        s.store = dict(self.store)
        s.frames = [dict(f) for f in self.frames]
        s.cond = list(self.cond)
        s.events = list(self.events)
        s.steps = self.steps
        return s


class Result:
    def __init__(self, kind, value, state, note=""):
        self.kind, self.value, self.state, self.note = kind, value, state, note


class Z3Session:
    """Persistent `z3 -in` process for path-feasibility queries (push / check-sat / pop)."""

    def __init__(self, decls):
        import subprocess
        self.p = subprocess.Popen(["/usr/bin/z3", "-in", "-smt2"], stdin=subprocess.PIPE, stdout=subprocess.PIPE, text=True, bufsize=1)
        self.queries = 0
        self.send("(set-logic ALL)")
        for d in decls:
            self.send(d)

    def send(self, line):
        self.p.stdin.write(line + "\n")
        self.p.stdin.flush()

    def sat(self, conds):
        self.queries += 1
        self.send("(push)")
        for c in conds:
            self.send("(assert %s)" % c)
        self.send("(check-sat)")
        ans = self.p.stdout.readline().strip()
        self.send("(pop)")
        if ans not in ("sat", "unsat"):
            raise Unsupported("z3 feasibility query answered %r" % ans)
        return ans == "sat"

    def close(self):
        try:
            self.send("(exit)")
            self.p.wait(timeout=5)
        except Exception:
            self.p.kill()


class Interp:
    def __init__(self, module, consts=None, max_steps=20000, decls=()):
        self.m = module
        self.consts = consts or {}
        self.nframe = 0
        self.nback = 0
        self.max_steps = max_steps
        self.z3 = Z3Session(list(decls))
        self.pruned = 0
        self.const_arrays = {}
        self.const_cache = {}

    def feasible(self, st):
        ok = self.z3.sat(st.cond)
        if not ok:
            self.pruned += 1
        return ok

    # ---- public entry -----------------------------------------------------
    def call(self, body, args, base=None):
        """Runs `body(args)` to completion on every path. Returns list of Result."""
        st = base.fork() if base is not None else State()
        st.frames = []
        self.push_frame(st, body, args, None, None)
        work, done = [st], []
        while work:
            s = work.pop()
            try:
                out = self.run(s)
            except Unsupported:
                raise
            forked = len(out) > 1
            for r in out:
                if isinstance(r, State):
                    if forked and not self.feasible(r):
                        continue
                    work.append(r)
                else:
                    if forked and r.kind == "panic" and not self.feasible(r.state):
                        continue
                    done.append(r)
        return done

    def push_frame(self, st, body, args, dst, ret_bb):
        self.nframe += 1
        fid = "f%d" % self.nframe
        if len(args) != len(body.args):
            raise Unsupported("arity mismatch calling %s" % body.name)
        for (loc, _ty), v in zip(body.args, args):
            st.store[fid + ":" + loc] = v
        st.frames.append({"body": body, "bb": "bb0", "idx": 0, "fid": fid, "dst": dst, "ret_bb": ret_bb})

    # ---- evaluation helpers -------------------------------------------------
    def key(self, st, local):
        return st.frames[-1]["fid"] + ":" + local

    def const(self, text, st):
        text = text.strip()
        m = re.match(r"^(-?\d+)_(\w+)$", text)
        if m:
            return int(m.group(1))
        if text in ("true", "false"):
            return text == "true"
        if text == "()":
            return UNIT
        if text.startswith('"'):
            return Adt("str", [text])
        m = re.match(r"^([\w:]+) \{\{\s*\}\}$", text)
        if m:
            return Adt(m.group(1).split("::")[-1], {})
        if text in self.consts:
            return self.consts[text]
        if text in self.m.consts:
            return self.m.consts[text][0]
        for k, (v, _ty) in self.m.consts.items():
            if k.endswith("::" + text) or text.endswith("::" + k):
                return v
        mm = re.match(r"^core::num::<impl (\w+)>::MAX$", text)
        if mm:
            w, sg = INT_TYPES[mm.group(1)]
            return (1 << (w - 1)) - 1 if sg else (1 << w) - 1
        if re.match(r"^(?:\w+::)*[A-Z_][A-Z0-9_]*$", text):
            v = self.named_const(text.split("::")[-1])
            if v is not None:
                return v
        if "promoted[" in text and ("STUFF" in self.consts):
            # the only promoted slices in these bodies are &STUFF_SEQUENCE and &[0u8] / &[0u8, 0u8]
            return self.promoted(text, st)
        raise Unsupported("const " + text)

    def named_const(self, name):
        """Evaluates `const NAME: T = { ...MIR... }` by interpreting its body (e.g. PROD_PARAMS)."""
        if name in self.const_cache:
            return self.const_cache[name]
        lines = self.m.text.split("\n")
        start = None
        for i, line in enumerate(lines):
            if line.startswith("const %s: " % name) and line.endswith(" = {"):
                start = i
                break
        if start is None:
            return None
        end = start
        while end < len(lines) and lines[end] != "}":
            end += 1
        ty = lines[start].split(": ", 1)[1].rsplit(" = {", 1)[0]
        body = mir.Body("const " + name, "fn konst() -> %s {" % ty, "\n".join(lines[start + 1:end + 1]))
        res = self.call(body, [])
        if len(res) != 1 or res[0].kind != "return":
            raise Unsupported("const %s did not evaluate to one value" % name)
        self.const_cache[name] = res[0].value
        return res[0].value

    const_cache = {}

    def promoted(self, text, st=None):
        """Evaluates a promoted constant by interpreting its own MIR body."""
        lines = self.m.text.split("\n")
        start = None
        idx = re.search(r"promoted\[(\d+)\]", text).group(1)
        if st is not None and st.frames:
            # exact: the promoted constant of the function being executed
            want = "const %s::promoted[%s]: " % (st.frames[-1]["body"].name, idx)
            for i, line in enumerate(lines):
                if line.startswith(want):
                    start = i
                    break
        for i, line in enumerate(lines):
            if start is not None:
                break
            if line.startswith("const ") and "promoted[" in line and self._same_promoted(line, text):
                start = i
                break
        if start is None:
            raise Unsupported("promoted const " + text)
        end = start
        while end < len(lines) and lines[end] != "}":
            end += 1
        ty = lines[start].split(": ", 1)[1].rsplit(" = {", 1)[0]
        body = mir.Body("promoted", "fn promoted() -> %s {" % ty, "\n".join(lines[start + 1:end + 1]))
        res = self.call(body, [])
        if len(res) != 1 or res[0].kind != "return":
            raise Unsupported("promoted const did not evaluate to one value: " + text)
        v = res[0].value
        if isinstance(v, Ref):
            v = self.project(res[0].state, res[0].state.store[v.key], v.proj)
        self.nback += 1
        k = "const:p%d" % self.nback
        self.const_arrays[k] = v
        return Ref(k, ())

    const_arrays = {}

    def _same_promoted(self, line, text):
        # line: `const encoder::<impl at ...>::new::promoted[0]: &[u8; 1] = {`; text: `encoder::EncoderState::new::promoted[0]` (+generics)
        m1 = re.search(r"(?:::|^const )(\w+)(?:::<[^>]*>)?::promoted\[(\d+)\]", line)
        t = re.sub(r"::<.*>::promoted", "::promoted", text)
        m2 = re.search(r"(?:::|^)(\w+)::promoted\[(\d+)\]", t)
        return bool(m1 and m2 and m1.group(1) == m2.group(1) and m1.group(2) == m2.group(2))

    def load(self, st, key):
        if key == "const:STUFF":
            return self.consts["STUFF"]
        if key in self.const_arrays:
            return self.const_arrays[key]
        if key not in st.store:
            raise Unsupported("read of unassigned " + key)
        return st.store[key]

    def parse_place(self, text):
        return parse_place(text)

    def read_place(self, st, text):
        base, proj = self.parse_place(text)
        key = self.key(st, base)
        v = self.load(st, key)
        return self.project(st, v, proj, text)

    def project(self, st, v, proj, text=""):
        for p in proj:
            if p[0] == "deref":
                if isinstance(v, Slice):
                    continue  # &[u8] is represented by the slice value itself
                if not isinstance(v, Ref):
                    raise Unsupported("deref of %r in %s" % (v, text))
                v = self.deref(st, v)
            elif p[0] == "field":
                if isinstance(v, Adt):
                    v = v.get(p[1])
                else:
                    raise Unsupported("field %s of %r in %s" % (p[1], v, text))
            elif p[0] == "variant":
                if not isinstance(v, Adt) or not v.name.endswith(p[1]):
                    raise Unsupported("downcast %r as %s" % (v, p[1]))
            elif p[0] == "index":
                idx = self.read_place(st, p[1])
                if isinstance(v, Ref):
                    v = self.deref(st, v)
                if not isinstance(v, Slice):
                    raise Unsupported("index of %r" % (v,))
                if not isinstance(idx, int):
                    raise Unsupported("symbolic index")
                v = v.elems[idx]
        return v

    def deref(self, st, ref):
        v = self.load(st, ref.key)
        return self.project(st, v, ref.proj)

    def write_place(self, st, text, val):
        base, proj = self.parse_place(text)
        key = self.key(st, base)
        self.write_at(st, key, proj, val)

    def write_at(self, st, key, proj, val):
        if not proj:
            st.store[key] = val
            return
        p = proj[0]
        cur = self.load(st, key)
        if p[0] == "deref":
            if not isinstance(cur, Ref):
                raise Unsupported("write through non-ref")
            self.write_at(st, cur.key, list(cur.proj) + list(proj[1:]), val)
            return
        if p[0] == "field":
            st.store[key] = self._set_field(st, cur, proj, val)
            return
        raise Unsupported("write projection %r" % (p,))

    def _set_field(self, st, cur, proj, val):
        if not proj:
            return val
        p = proj[0]
        if p[0] == "field" and isinstance(cur, Adt):
            return cur.with_field(p[1], self._set_field(st, cur.get(p[1]), proj[1:], val))
        if p[0] == "variant":
            return self._set_field(st, cur, proj[1:], val)
        raise Unsupported("nested write %r" % (p,))

    def operand(self, st, text):
        text = text.strip()
        if text.startswith("const "):
            return self.const(text[6:], st)
        m = re.match(r"^(?:copy|move) (.*)$", text)
        if m:
            return self.read_place(st, m.group(1))
        raise Unsupported("operand " + text)

    # ---- rvalues ----------------------------------------------------------------
    def term(self, v, w):
        if isinstance(v, Sym):
            if v.w == w:
                return v.term
            if v.w < w:
                return "((_ zero_extend %d) %s)" % (w - v.w, v.term)
            return "((_ extract %d 0) %s)" % (w - 1, v.term)
        if isinstance(v, bool):
            return bvconst(1 if v else 0, w)
        return bvconst(v, w)

    def binop(self, op, a, b, ty):
        sym = isinstance(a, (Sym, SymB)) or isinstance(b, (Sym, SymB))
        if not sym:
            if op in ("Add", "AddUnchecked"):
                return a + b
            if op in ("Sub", "SubUnchecked"):
                return a - b
            if op == "Mul":
                return a * b
            if op == "Div":
                return a // b
            if op == "Rem":
                return a % b
            if op == "BitAnd":
                return (a and b) if isinstance(a, bool) else (a & b)
            if op == "BitOr":
                return (a or b) if isinstance(a, bool) else (a | b)
            if op == "BitXor":
                return (a != b) if isinstance(a, bool) else (a ^ b)
            if op in ("Shr", "ShrUnchecked"):
                return a >> b
            if op in ("Shl", "ShlUnchecked"):
                wd = width_of((ty or "").strip()) or (64, False)
                return (a << b) % (1 << wd[0])
            return {"Eq": a == b, "Ne": a != b, "Lt": a < b, "Le": a <= b, "Gt": a > b, "Ge": a >= b}[op]
        # symbolic: booleans
        if isinstance(a, (bool, SymB)) and isinstance(b, (bool, SymB)):
            ta = a.term if isinstance(a, SymB) else ("true" if a else "false")
            tb = b.term if isinstance(b, SymB) else ("true" if b else "false")
            if op == "BitAnd":
                if a is False or b is False:
                    return False
                if a is True:
                    return b
                if b is True:
                    return a
                return SymB("(and %s %s)" % (ta, tb))
            if op == "BitOr":
                if a is True or b is True:
                    return True
                return SymB("(or %s %s)" % (ta, tb))
            if op in ("Eq",):
                return SymB("(= %s %s)" % (ta, tb))
            if op in ("Ne", "BitXor"):
                return SymB("(xor %s %s)" % (ta, tb))
            raise Unsupported("bool op " + op)
        w = max(a.w if isinstance(a, Sym) else 0, b.w if isinstance(b, Sym) else 0)
        ta, tb = self.term(a, w), self.term(b, w)
        cmpu = {"Eq": "=", "Lt": "bvult", "Le": "bvule", "Gt": "bvugt", "Ge": "bvuge"}
        if op in cmpu:
            return SymB("(%s %s %s)" % (cmpu[op], ta, tb))
        if op == "Ne":
            return SymB("(not (= %s %s))" % (ta, tb))
        ar = {"Add": "bvadd", "Sub": "bvsub", "Mul": "bvmul", "BitAnd": "bvand", "BitOr": "bvor", "BitXor": "bvxor", "Shr": "bvlshr", "Shl": "bvshl",
              "ShrUnchecked": "bvlshr", "ShlUnchecked": "bvshl", "Div": "bvudiv", "Rem": "bvurem"}
        if op in ar:
            return Sym("(%s %s %s)" % (ar[op], ta, tb), w)
        raise Unsupported("symbolic op " + op)

    def rvalue(self, st, text, dst_ty):
        text = text.strip()
        if text.startswith("no_retag "):
            text = text[len("no_retag "):]
        m = re.match(r"^(.*) as (.*) \(PointerCoercion\(.*\)\)$", text)
        if m:
            return self.operand(st, m.group(1))
        m = re.match(r"^(\w+)\((.*)\)$", text)
        OPS = ("Add", "Sub", "Mul", "Div", "Rem", "BitAnd", "BitOr", "BitXor", "Eq", "Ne", "Lt", "Le", "Gt", "Ge", "AddUnchecked", "SubUnchecked", "Shr", "Shl", "ShrUnchecked", "ShlUnchecked")
        if m and m.group(1) in OPS:
            a, b = [self.operand(st, x) for x in split_top(m.group(2))]
            return self.binop(m.group(1), a, b, dst_ty)
        if m and m.group(1) in ("AddWithOverflow", "SubWithOverflow", "MulWithOverflow"):
            a, b = [self.operand(st, x) for x in split_top(m.group(2))]
            if isinstance(a, Sym) or isinstance(b, Sym):
                w = max(a.w if isinstance(a, Sym) else 0, b.w if isinstance(b, Sym) else 0)
                # symbolic operands in the codec are bytes / small counters widened to usize: no overflow possible at 64 bits;
                # interpreters created with exact_overflow=True (64-bit symbolic arguments) get the real flag
                r = self.binop(m.group(1)[:3], self.widen(a, 64), self.widen(b, 64), dst_ty)
                if getattr(self, "exact_overflow", False):
                    ta, tb = self.term(a, 64), self.term(b, 64)
                    op3 = m.group(1)[:3]
                    if op3 == "Sub":
                        return Adt("tuple", [r, SymB("(bvult %s %s)" % (ta, tb))])
                    if op3 == "Add":
                        return Adt("tuple", [r, SymB("(bvult (bvadd %s %s) %s)" % (ta, tb, ta))])
                    raise Unsupported("exact overflow flag of a symbolic multiplication")
                return Adt("tuple", [r, False])
            r = self.binop(m.group(1)[:3], a, b, dst_ty)
            wd = width_of(re.match(r"^\((\w+), bool\)$", dst_ty.strip()).group(1)) if dst_ty and re.match(r"^\((\w+), bool\)$", dst_ty.strip()) else (64, False)
            lo, hi = (-(1 << (wd[0] - 1)), (1 << (wd[0] - 1)) - 1) if wd[1] else (0, (1 << wd[0]) - 1)
            return Adt("tuple", [r, not (lo <= r <= hi)])
        m = re.match(r"^(Neg|Not)\((.*)\)$", text)
        if m:
            a = self.operand(st, m.group(2))
            if isinstance(a, bool):
                return not a
            if isinstance(a, SymB):
                return SymB("(not %s)" % a.term)
            raise Unsupported("Neg/Not of " + repr(a))
        m = re.match(r"^(.*) as (\w+) \(IntToInt\)$", text)
        if m:
            a = self.operand(st, m.group(1))
            w2, _s = INT_TYPES[m.group(2)]
            if isinstance(a, bool):
                return 1 if a else 0
            if isinstance(a, SymB):
                return Sym("(ite %s %s %s)" % (a.term, bvconst(1, w2), bvconst(0, w2)), w2)
            if isinstance(a, Sym):
                return Sym(self.term(a, w2), w2)
            return a % (1 << w2)
        m = re.match(r"^PtrMetadata\((.*)\)$", text)
        if m:
            v = self.operand(st, m.group(1))
            if isinstance(v, Ref):
                v = self.deref(st, v)
            if isinstance(v, Slice):
                return len(v.elems)
            raise Unsupported("PtrMetadata of %r" % (v,))
        m = re.match(r"^discriminant\((.*)\)$", text)
        if m:
            v = self.read_place(st, m.group(1))
            if not isinstance(v, Adt):
                raise Unsupported("discriminant of %r" % (v,))
            if v.name in VARIANT_INDEX:
                return VARIANT_INDEX[v.name]
            for k, i in VARIANT_INDEX.items():
                if v.name.endswith("::" + k) or k.endswith("::" + v.name):
                    return i
            raise Unsupported("discriminant of " + v.name)
        m = re.match(r"^&(?:mut |raw const |raw mut )?(.*)$", text)
        if m:
            base, proj = self.parse_place(m.group(1))
            key = self.key(st, base)
            # reborrow through a reference: resolve to the referent
            if proj and proj[0][0] == "deref":
                cur = self.load(st, key)
                if isinstance(cur, Ref):
                    return Ref(cur.key, list(cur.proj) + [p for p in proj[1:]])
                if isinstance(cur, Slice):
                    return cur
            return Ref(key, proj)
        m = re.match(r"^\[(.*)\]$", text)
        if m:
            inner = m.group(1)
            mm = re.match(r"^(.*); (\d+)$", inner)
            if mm and balanced(mm.group(1)):
                return Slice([self.operand(st, mm.group(1))] * int(mm.group(2)), "array")
            return Slice([self.operand(st, x) for x in split_top(inner) if x.strip()], "array")
        m = re.match(r"^\((.*)\)$", text)
        if m:
            return Adt("tuple", [self.operand(st, x) for x in split_top(m.group(1)) if x.strip()])
        m = re.match(r"^\{closure@([^}]*)\}(?: \{ (.*) \})?$", text)
        if m:
            caps = {}
            if m.group(2):
                for f in split_top(m.group(2)):
                    k, v = f.split(":", 1)
                    caps[k.strip()] = self.operand(st, v)
            return Adt("closure@" + m.group(1), caps)
        m = re.match(r"^([\w:<>, ']+?)(?:::<.*>)?::(\w+)\((.*)\)$", text)
        if m and m.group(2)[0].isupper():
            args = [self.operand(st, x) for x in split_top(m.group(3)) if x.strip()]
            name = m.group(1).split("::")[-1] + "::" + m.group(2) if m.group(2) not in ("Ok", "Err", "Some") else m.group(2)
            return Adt(name, args)
        m = re.match(r"^(?:std::option::)?Option::<.*>::None$", text)
        if m:
            return Adt("None", [])
        m = re.match(r"^([\w:]+(?:<.*>)?) \{ (.*) \}$", text)
        if m:
            fields = {}
            for f in split_top(m.group(2)):
                k, v = f.split(":", 1)
                fields[k.strip()] = self.operand(st, v)
            return Adt(re.sub(r"::<.*>$", "", m.group(1)).split("::")[-1], fields)
        m = re.match(r"^([\w:]+)$", text)
        if m and text.split("::")[-1][0].isupper():
            parts = text.split("::")
            if len(parts) >= 2 and parts[-2] in QUALIFIED_ENUMS:
                return Adt(parts[-2] + "::" + parts[-1], [])
            return Adt(parts[-1], [])
        if text.startswith(("copy ", "move ", "const ")):
            return self.operand(st, text)
        raise Unsupported("rvalue " + text)

    def widen(self, v, w):
        if isinstance(v, Sym):
            return Sym(self.term(v, w), w)
        return v

    # ---- main loop ------------------------------------------------------------------------
    def run(self, st):
        """Runs until the outermost frame returns, the path panics, or a fork happens."""
        while True:
            st.steps += 1
            if st.steps > self.max_steps:
                raise Unsupported("step bound exceeded (loop?)")
            fr = st.frames[-1]
            body = fr["body"]
            lines = body.blocks[fr["bb"]]
            s = lines[fr["idx"]]
            last = fr["idx"] == len(lines) - 1
            if s.startswith(("StorageLive", "StorageDead", "nop", "FakeRead", "PlaceMention", "Retag", "AscribeUserType", "ConstEvalCounter")):
                fr["idx"] += 1
                continue
            if not last:
                m = re.match(r"^(.*?) = (.*);$", s)
                if not m:
                    raise Unsupported("statement " + s)
                dst = m.group(1).strip()
                dty = body.locals.get(dst, "")
                val = self.rvalue(st, m.group(2), dty)
                self.write_place(st, dst, val)
                fr["idx"] += 1
                continue
            # ---- terminators
            if s == "return;":
                rv = st.store.get(fr["fid"] + ":_0", UNIT)
                st.frames.pop()
                if not st.frames:
                    return [Result("return", rv, st)]
                caller = st.frames[-1]
                if fr["dst"]:
                    self.write_place(st, fr["dst"], rv)
                caller["bb"], caller["idx"] = fr["ret_bb"], 0
                continue
            if s in ("unreachable;", "resume;"):
                return [Result("unreachable", None, st)]
            m = re.match(r"^goto -> (bb\d+);$", s)
            if m:
                fr["bb"], fr["idx"] = m.group(1), 0
                continue
            m = re.match(r"^switchInt\((.*)\) -> \[(.*)\];$", s)
            if m:
                v = self.operand(st, m.group(1))
                arms = [[x.strip() for x in a.split(":")] for a in m.group(2).split(",")]
                if isinstance(v, (SymB, Sym)):
                    outs = []
                    taken = []
                    for k, tgt in arms:
                        n = st.fork()
                        if k == "otherwise":
                            n.cond += ["(not %s)" % t for t in taken]
                        else:
                            c = (v.term if int(k) != 0 else "(not %s)" % v.term) if isinstance(v, SymB) else "(= %s %s)" % (v.term, bvconst(int(k), v.w))
                            taken.append(c)
                            n.cond.append(c)
                        n.frames[-1]["bb"], n.frames[-1]["idx"] = tgt, 0
                        outs.append(n)
                    return outs
                cv = (1 if v else 0) if isinstance(v, bool) else v
                tgt = None
                for k, t in arms:
                    if k != "otherwise" and int(k) == cv:
                        tgt = t
                if tgt is None:
                    tgt = [t for k, t in arms if k == "otherwise"][0]
                fr["bb"], fr["idx"] = tgt, 0
                continue
            m = re.match(r"^assert\((!?)(.*?), \"(.*?)\".*\) -> \[success: (bb\d+), unwind.*\];$", s)
            if m:
                v = self.operand(st, m.group(2))
                if isinstance(v, SymB):
                    ok = "(not %s)" % v.term if m.group(1) else v.term
                    bad = st.fork()
                    bad.cond.append("(not %s)" % ok)
                    st.cond.append(ok)
                    fr["bb"], fr["idx"] = m.group(4), 0
                    return [Result("panic", None, bad, m.group(3)), st]
                holds = (not v) if m.group(1) else bool(v)
                if not holds:
                    return [Result("panic", None, st, m.group(3))]
                fr["bb"], fr["idx"] = m.group(4), 0
                continue
            m = re.match(r"^drop\((.*)\) -> \[return: (bb\d+), unwind.*\];$", s)
            if m:
                try:
                    dv = self.read_place(st, m.group(1).strip())
                except (Unsupported, KeyError):
                    dv = None
                if isinstance(dv, Adt) and dv.name == "Anchor":
                    st.events.append(("drop_anchor", dv.get("id")))
                fr["bb"], fr["idx"] = m.group(2), 0
                continue
            m = re.match(r"^(.*?) = (.*) -> \[return: (bb\d+), unwind.*\];$", s)
            if m:
                dst, calltext, nxt = m.groups()
                callee, argtext = split_call(calltext)
                args = [self.operand(st, a) for a in split_top(argtext) if a.strip()]
                out = self.do_call(st, dst.strip(), callee.strip(), args, nxt)
                if out is None:
                    continue
                return out
            m = re.match(r"^(.*?) = (.*) -> (?:unwind.*|bb\d+);$", s)
            if m:
                callee, argtext = split_call(m.group(2))
                note = argtext[:120] if "panic" in callee else "diverging call " + callee
                return [Result("panic", None, st, note)]
            raise Unsupported("terminator " + s)

    # ---- calls -------------------------------------------------------------------------------------
    def ret(self, st, dst, val, nxt):
        if dst:
            self.write_place(st, dst, val)
        fr = st.frames[-1]
        fr["bb"], fr["idx"] = nxt, 0

    def as_slice(self, st, v):
        if isinstance(v, Ref):
            v = self.deref(st, v)
        if not isinstance(v, Slice):
            raise Unsupported("expected a slice, got %r" % (v,))
        return v

    def fork_values(self, st, dst, nxt, options):
        """options: list of (cond or None, value)"""
        outs = []
        for c, v in options:
            n = st.fork()
            if c:
                n.cond.append(c)
            self.ret(n, dst, v, nxt)
            outs.append(n)
        return outs

    def do_call(self, st, dst, callee, args, nxt):
        c = callee
        body = self.resolve(c, args)
        if body is not None:
            self.push_frame(st, body, args, dst, nxt)
            return None
        if c.endswith("::is_empty") and "slice" in c:
            self.ret(st, dst, len(self.as_slice(st, args[0]).elems) == 0, nxt)
            return None
        if re.search(r"slice::<impl \[u8\]>::len$", c):
            self.ret(st, dst, len(self.as_slice(st, args[0]).elems), nxt)
            return None
        m = re.match(r"^<\[u8(?:; \d+)?\] as (?:std::ops::)?Index<(?:std::ops::)?(Range|RangeTo|RangeFrom)<usize>>>::index$", c)
        if m:
            sl = self.as_slice(st, args[0])
            r = args[1]
            lo = r.get("start") if m.group(1) in ("Range", "RangeFrom") else 0
            hi = r.get("end") if m.group(1) in ("Range", "RangeTo") else len(sl.elems)
            if not isinstance(lo, int) or not isinstance(hi, int):
                raise Unsupported("symbolic slice bound")
            if not (0 <= lo <= hi <= len(sl.elems)):
                return [Result("panic", None, st, "slice index out of range %d..%d of %d" % (lo, hi, len(sl.elems)))]
            self.ret(st, dst, Slice(sl.elems[lo:hi], sl.tag), nxt)
            return None
        if c.endswith("NonZero::<usize>::get") or c.endswith("NonZero::<u32>::get") or c.endswith("NonZero::<u64>::get") or re.match(r"^<NonZero<\w+> as Into<\w+>>::into$", c) or re.match(r"^<NonZero<\w+> as From.*>::from$", c):
            self.ret(st, dst, args[0], nxt)
            return None
        m = re.match(r"^NonZero::<(\w+)>::new$", c)
        if m:
            v = args[0]
            if isinstance(v, Sym):
                return self.fork_values(st, dst, nxt, [("(= %s %s)" % (v.term, bvconst(0, v.w)), Adt("None", [])),
                                                       ("(not (= %s %s))" % (v.term, bvconst(0, v.w)), Adt("Some", [v]))])
            self.ret(st, dst, Adt("None", []) if v == 0 else Adt("Some", [v]), nxt)
            return None
        if re.match(r"^Option::<.*>::unwrap$", c) or re.match(r"^Result::<.*>::unwrap$", c):
            v = args[0]
            if v.name in ("None", "Err"):
                return [Result("panic", None, st, "unwrap on " + v.name)]
            self.ret(st, dst, v.fields[0], nxt)
            return None
        if c in ("<usize as Ord>::min", "std::cmp::min::<usize>", "core::cmp::min::<usize>") or c.endswith("as Ord>::min"):
            a, b = args
            if isinstance(a, int) and isinstance(b, int):
                self.ret(st, dst, min(a, b), nxt)
                return None
            # concretise: the result is used as a slice bound
            conc, sym = (a, b) if isinstance(a, int) else (b, a)
            w = sym.w
            if conc > 70000:
                # too many values to enumerate (only sizes up to one HCOBS chunk are): keep the minimum symbolic; a later
                # use as a slice bound is then reported as unsupported instead of looping
                self.ret(st, dst, Sym("(ite (bvult %s %s) %s %s)" % (sym.term, bvconst(conc, w), sym.term, bvconst(conc, w)), w), nxt)
                return None
            opts = [("(= %s %s)" % (sym.term, bvconst(k, w)), k) for k in range(conc)]
            opts.append(("(bvuge %s %s)" % (sym.term, bvconst(conc, w)), conc))
            return self.fork_values(st, dst, nxt, opts)
        if (c == "find_stuff_sequence" or c.endswith("::find_stuff_sequence")) and not getattr(self, "real_fss", False):
            sl = self.as_slice(st, args[0])
            opts = []
            prev = []
            for i in range(len(sl.elems) - 1):
                here = self.both(sl.elems[i], 0xFE, sl.elems[i + 1], 0xFD)
                if here is False:
                    continue
                c_here = None if here is True else here
                conds = list(prev) + ([c_here] if c_here else [])
                opts.append((conj_all(conds), Adt("Some", [i])))
                if here is True:
                    prev = None
                    break
                prev.append("(not %s)" % here)
            if prev is not None:
                opts.append((conj_all(prev), Adt("None", [])))
            return self.fork_values(st, dst, nxt, opts)
        # ---- OwningIovec as an event sink
        if c.endswith("OwningIovec::<'_>::register_patch") or c.endswith("OwningIovec::register_patch"):
            sl = self.as_slice(st, args[1])
            self.nback += 1
            tok = Adt("Backref", {"id": self.nback, "len": len(sl.elems)})
            st.events.append(("register", self.nback, len(sl.elems)))
            self.ret(st, dst, tok, nxt)
            return None
        if re.search(r"OwningIovec::(<'_>::)?(push|push_copy|push_borrowed)$", c):
            sl = self.as_slice(st, args[1])
            st.events.append((c.split("::")[-1], list(sl.elems), sl.tag))
            self.ret(st, dst, UNIT, nxt)
            return None
        if re.search(r"OwningIovec::(<'_>::)?backfill_or_panic$", c):
            tok, sl = args[1], self.as_slice(st, args[2])
            if tok.get("len") != len(sl.elems):
                return [Result("panic", None, st, "backfill size mismatch")]
            st.events.append(("backfill", tok.get("id"), list(sl.elems)))
            self.ret(st, dst, UNIT, nxt)
            return None
        if c.endswith("Backref::len"):
            tok = args[0]
            if isinstance(tok, Ref):
                tok = self.deref(st, tok)
            self.ret(st, dst, tok.get("len"), nxt)
            return None
        m = re.match(r"^<(?:\(\)|[\w:]+) as Default>::default$", c)
        if c.endswith("<Backref as Default>::default") or c.endswith("Backref as std::default::Default>::default"):
            self.ret(st, dst, Adt("Backref", {"id": 0, "len": 0}), nxt)
            return None
        if re.match(r"^<RangeInclusive<usize> as .*>::contains|RangeInclusive::<usize>::contains", c) or c.endswith("RangeInclusive::<usize>::contains::<usize>"):
            r, x = args
            x = self.deref(st, x) if isinstance(x, Ref) else x
            if isinstance(r, Ref):
                r = self.deref(st, r)
            self.ret(st, dst, r.get("start") <= x <= r.get("end"), nxt)
            return None
        if c.endswith("RangeInclusive::<usize>::new") or c == "std::ops::RangeInclusive::<usize>::new":
            self.ret(st, dst, Adt("RangeInclusive", {"start": args[0], "end": args[1]}), nxt)
            return None
        if c.endswith(" as Try>::branch"):
            v = args[0]
            self.ret(st, dst, Adt("Continue", [v.fields[0]]) if v.name == "Ok" else Adt("Break", [Adt("Err", [v.fields[0]])]), nxt)
            return None
        if c.endswith(">::from_residual"):
            self.ret(st, dst, Adt("Err", [args[0].fields[0]]), nxt)
            return None
        if "FnOnce" in c and c.endswith("::call_once"):
            clo, tup = args
            body = self.closure_body(clo)
            self.push_frame(st, body, [clo] + list(tup.fields), dst, nxt)
            return None
        h = self.stream_call(st, dst, c, args, nxt)
        if h is not NotImplemented:
            return h
        if re.search(r"NonZero::<\w+>::new_unchecked$", c):
            self.ret(st, dst, args[0], nxt)
            return None
        if re.match(r"^(std|core)::mem::swap::<.*>$", c):
            a, b = args
            va, vb = self.deref(st, a), self.deref(st, b)
            self.write_at(st, a.key, list(a.proj), vb)
            self.write_at(st, b.key, list(b.proj), va)
            self.ret(st, dst, UNIT, nxt)
            return None
        if c.endswith("AnchoredSlice::components"):
            a = args[0]
            self.ret(st, dst, Adt("tuple", [Adt("IoSlice", []), a.get("slice"), a.get("anchor")]), nxt)
            return None
        if re.search(r"OwningIovec::(<'_>::)?push_anchor$", c):
            st.events.append(("push_anchor", args[1].get("id")))
            self.ret(st, dst, UNIT, nxt)
            return None
        if re.search(r"^<OwningIovec(<'_>)? as Default>::default$|OwningIovec::(<'_>::)?new$", c):
            self.ret(st, dst, Adt("OwningIovec", {}), nxt)
            return None
        raise Unsupported("call " + c)

    # ---- StreamReader support (C06) ---------------------------------------------------------------
    def val(self, st, v):
        while isinstance(v, Ref):
            v = self.deref(st, v)
        return v

    def stream_call(self, st, dst, c, args, nxt):
        if re.match(r"^(std::ops::)?Range::<u64>::is_empty$", c):
            r = self.val(st, args[0])
            self.ret(st, dst, not (r.get("start") < r.get("end")), nxt)
            return None
        if re.match(r"^<(std::ops::)?Range<u64> as Clone>::clone$", c):
            self.ret(st, dst, self.val(st, args[0]), nxt)
            return None
        if re.match(r"^<&+u64 as PartialEq>::(eq|ne)$", c):
            a, b = self.val(st, args[0]), self.val(st, args[1])
            self.ret(st, dst, (a == b) if c.endswith("eq") else (a != b), nxt)
            return None
        if c in ("<State as PartialEq>::eq", "<State as PartialEq>::ne", "<StreamAction as PartialEq>::eq", "<StreamAction as PartialEq>::ne"):
            # derived PartialEq on a field-less enum
            same = self.val(st, args[0]).name == self.val(st, args[1]).name
            self.ret(st, dst, same if c.endswith("eq") else not same, nxt)
            return None
        if re.match(r"^Option::<\w+>::unwrap_or$", c):
            v = args[0]
            self.ret(st, dst, v.fields[0] if v.name == "Some" else args[1], nxt)
            return None
        if re.search(r"Result::<.*>::is_err$", c):
            self.ret(st, dst, self.val(st, args[0]).name == "Err", nxt)
            return None
        if re.search(r"Result::<.*>::is_ok$", c):
            self.ret(st, dst, self.val(st, args[0]).name == "Ok", nxt)
            return None
        if c.endswith("AnchoredSlice::slice"):
            self.ret(st, dst, self.val(st, args[0]).get("slice"), nxt)
            return None
        if re.search(r"OwningIovec::(<'_>::)?clear$", c):
            st.events.append(("clear",))
            self.ret(st, dst, UNIT, nxt)
            return None
        if re.search(r"OwningIovec::(<'_>::)?take$", c):
            self.ret(st, dst, Adt("OwningIovec", {}), nxt)
            return None
        if re.search(r"OwningIovec::(<'_>::)?consumer$", c):
            total = 0
            for e in st.events:
                if e[0] == "clear":
                    total = 0
                elif e[0] in ("push", "push_copy", "push_borrowed"):
                    total += len(e[1])
                elif e[0] == "register":
                    total += e[2]
            st.events.append(("consumer", total))
            self.ret(st, dst, Adt("ConsumingIovec", {"total": total}), nxt)
            return None
        if re.match(r"^<ConsumingIovec(<'_>)? as Deref(Mut)?>::deref(_mut)?$", c):
            v = self.val(st, args[0])
            if isinstance(v, Adt) and isinstance(v.fields, dict) and "iov_ref" in v.fields:
                v = v.get("iov_ref")      # a reference to the modelled OwningIovec (fields in declaration order)
            self.ret(st, dst, v, nxt)
            return None
        if re.search(r"GlobalDeque::(<'_>::)?logical_size$", c):
            v = self.val(st, args[0])
            if not (isinstance(v, Adt) and isinstance(v.fields, dict) and "logical" in v.fields):
                raise Unsupported("call " + c + " on an unmodelled deque")
            self.ret(st, dst, v.get("logical"), nxt)
            return None
        if re.match(r"^SortedDeque::<.*>::first$", c):
            v = self.val(st, args[0])
            if not (isinstance(v, Adt) and isinstance(v.fields, dict) and "first" in v.fields):
                raise Unsupported("call " + c + " on an unmodelled deque")
            self.ret(st, dst, v.get("first"), nxt)
            return None
        if re.search(r"OwningIovec::(<'_>::)?total_size$", c):
            self.ret(st, dst, self.val(st, args[0]).get("total"), nxt)
            return None
        if re.search(r"ConsumingIovec::(<'_>::)?arena$", c):
            self.ret(st, dst, Adt("ArenaHandle", {}), nxt)
            return None
        if re.match(r"^<.* as FnMut<.*>>::call_mut$", c):
            clo, tup = self.val(st, args[0]), args[1]
            body = self.closure_body(clo)
            self.nback += 1
            k = "clo:%d" % self.nback
            st.store[k] = clo
            self.push_frame(st, body, [Ref(k)] + list(tup.fields), dst, nxt)
            return None
        if re.search(r"OwningIovec::(<'_>::)?arena$", c):
            self.ret(st, dst, Adt("ArenaHandle", {}), nxt)
            return None
        # ---- find_stuff_sequence's own body: windows(2).enumerate() and the array comparison
        m = re.match(r"^core::slice::<impl \[u8\]>::(windows|chunks)$", c)
        if m:
            sl = self.as_slice(st, args[0])
            if not isinstance(args[1], int) or args[1] <= 0:
                return [Result("panic", None, st, "window / chunk size must be a positive constant")]
            self.ret(st, dst, Adt("SliceCursor", {"kind": m.group(1), "items": sl, "size": args[1], "pos": 0, "count": 0}), nxt)
            return None
        if re.match(r"^<(Windows|Chunks)<'_, u8> as Iterator>::enumerate$", c) or re.match(r"^<Enumerate<(Windows|Chunks)<'_, u8>> as IntoIterator>::into_iter$", c):
            self.ret(st, dst, args[0], nxt)
            return None
        if re.match(r"^<Enumerate<(Windows|Chunks)<'_, u8>> as Iterator>::next$", c):
            ref = args[0]
            w = self.val(st, ref)
            items, size, pos, cnt = w.get("items"), w.get("size"), w.get("pos"), w.get("count")
            n = len(items.elems)
            if w.get("kind") == "windows":
                if pos + size > n:
                    self.ret(st, dst, Adt("None", []), nxt)
                else:
                    self.write_at(st, ref.key, list(ref.proj), w.with_field("pos", pos + 1).with_field("count", cnt + 1))
                    self.ret(st, dst, Adt("Some", [Adt("tuple", [cnt, Slice(items.elems[pos:pos + size], items.tag)])]), nxt)
            else:
                if pos >= n:
                    self.ret(st, dst, Adt("None", []), nxt)
                else:
                    self.write_at(st, ref.key, list(ref.proj), w.with_field("pos", pos + size).with_field("count", cnt + 1))
                    self.ret(st, dst, Adt("Some", [Adt("tuple", [cnt, Slice(items.elems[pos:pos + size], items.tag)])]), nxt)
            return None
        if re.match(r"^core::slice::<impl \[u8\]>::contains$", c):
            sl = self.as_slice(st, args[0])
            x = self.val(st, args[1])
            conds = []
            for e in sl.elems:
                if isinstance(e, int) and isinstance(x, int):
                    if e == x:
                        self.ret(st, dst, True, nxt)
                        return None
                    continue
                conds.append("(= %s %s)" % (self.term(e, 8), self.term(x, 8)))
            self.ret(st, dst, False if not conds else SymB(conds[0] if len(conds) == 1 else "(or %s)" % " ".join(conds)), nxt)
            return None
        if re.match(r"^<&\[u8\] as PartialEq<\[u8; \d+\]>>::eq$", c):
            a, b = self.as_slice(st, self.val(st, args[0])), self.as_slice(st, self.val(st, args[1]))
            if len(a.elems) != len(b.elems):
                self.ret(st, dst, False, nxt)
                return None
            conds = []
            for x, y in zip(a.elems, b.elems):
                if isinstance(x, int) and isinstance(y, int):
                    if x != y:
                        self.ret(st, dst, False, nxt)
                        return None
                    continue
                conds.append("(= %s %s)" % (self.term(x, 8), self.term(y, 8)))
            self.ret(st, dst, True if not conds else SymB(conj_all(conds)), nxt)
            return None
        if re.search(r"OwningIovec::(<'_>::)?stable_prefix$", c):
            v = self.val(st, args[0])
            self.ret(st, dst, v.get("stable"), nxt)
            return None
        if re.match(r"^<&\[IoSlice<'_>\] as IntoIterator>::into_iter$", c):
            self.nback += 1
            k = "iter:%d" % self.nback
            self.ret(st, dst, Adt("SliceIter", {"items": self.as_slice(st, args[0]), "pos": 0}), nxt)
            return None
        if re.match(r"^<(std::slice::)?Iter<'_, IoSlice<'_>> as Iterator>::next$", c):
            ref = args[0]
            itv = self.val(st, ref)
            items, pos = itv.get("items").elems, itv.get("pos")
            if pos >= len(items):
                self.ret(st, dst, Adt("None", []), nxt)
            else:
                self.write_at(st, ref.key, list(ref.proj), itv.with_field("pos", pos + 1))
                self.ret(st, dst, Adt("Some", [items[pos]]), nxt)
            return None
        if re.match(r"^<IoSlice<'_> as Deref>::deref$", c):
            self.ret(st, dst, self.val(st, args[0]), nxt)
            return None
        if re.match(r"^ConsumingIovec::<'_>::iovec(::<'_>)?$", c):
            v = self.val(st, args[0])
            if isinstance(v, Adt) and isinstance(v.fields, dict) and "iov_ref" in v.fields:
                self.ret(st, dst, v.get("iov_ref"), nxt)
            else:
                self.ret(st, dst, Ref("g:ciov", (("field", "inner"),)), nxt)
            return None
        if re.search(r"GlobalDeque::(<'_>::)?consume_by_bytes$", c):
            st.events.append(("consume_by_bytes", args[1]))
            self.ret(st, dst, args[1], nxt)
            return None
        if re.match(r"^ByteArena::read_n::<.*>$", c):
            return self.read_n_contract(st, dst, args, nxt)
        if re.match(r"^(std::io::)?Error::other::<.*>$", c):
            self.ret(st, dst, Adt("IoError", {"kind": "other", "inner": args[0]}), nxt)
            return None
        if re.match(r"^StreamChunker::pump::<.*>$", c):
            return self.pump_contract(st, dst, args, nxt)
        return NotImplemented

    def pump_contract(self, st, dst, args, nxt):
        """StreamChunker::pump replaced by the contract that C08 decides for the real function: the chunks tile the
        stream; a Sentinel is returned exactly where the remaining stream starts with FE FD; a Data chunk is a non-empty
        prefix of the remaining stream that stops at or before the next FE FD (any such length: the read schedule and
        block size choose it); Eof when nothing is left.  The chunker state is (remaining stream, absolute offset)."""
        ch_ref = args[0]
        ch = self.val(st, ch_ref)
        rest, off = ch.get("rest"), ch.get("offset")
        n = len(rest.elems)

        def upd(s2, k):
            self.write_at(s2, ch_ref.key, list(ch_ref.proj), Adt("StreamChunker", {"rest": Slice(rest.elems[k:], rest.tag), "offset": off + k}))

        if n == 0:
            self.ret(st, dst, Adt("Ok", [Adt("Chunk::Eof", [])]), nxt)
            return None
        outs = []
        # positions of the first stuff sequence in `rest`
        prev = []
        splits = self.pump_splits
        self.npump = getattr(self, "npump", 0) + 1
        for idx in range(0, n):
            here = self.both(rest.elems[idx], 0xFE, rest.elems[idx + 1], 0xFD) if idx + 1 < n else False
            # case: first stuff sequence at idx (or, at idx == n-1 ... none at all handled after the loop)
            if here is not False:
                conds = list(prev) + ([here] if here is not True else [])
                if idx == 0:
                    s2 = st.fork()
                    s2.cond += conds
                    upd(s2, 2)
                    self.ret(s2, dst, Adt("Ok", [Adt("Chunk::Sentinel", [off + 2])]), nxt)
                    outs.append(s2)
                else:
                    for k in splits(idx, st):
                        s2 = st.fork()
                        s2.cond += conds
                        upd(s2, k)
                        a = Adt("AnchoredSlice", {"slice": Slice(rest.elems[:k], "anch%d" % self.npump), "anchor": Adt("Anchor", {"id": self.npump})})
                        self.ret(s2, dst, Adt("Ok", [Adt("Chunk::Data", [Adt("tuple", [off + k, a])])]), nxt)
                        outs.append(s2)
                if here is True:
                    prev = None
                    break
                prev.append("(not %s)" % here)
        if prev is not None:
            for k in splits(n, st):
                s2 = st.fork()
                s2.cond += prev
                upd(s2, k)
                a = Adt("AnchoredSlice", {"slice": Slice(rest.elems[:k], "anch%d" % self.npump), "anchor": Adt("Anchor", {"id": self.npump})})
                self.ret(s2, dst, Adt("Ok", [Adt("Chunk::Data", [Adt("tuple", [off + k, a])])]), nxt)
                outs.append(s2)
        return outs

    def read_n_contract(self, st, dst, args, nxt):
        """ByteArena::read_n replaced by the contract C17 decides for the real function: Ok(the first k bytes the reader
        holds) for any k <= min(count, available) - which k depends on short reads, interrupted calls and the attempt
        budget - or Err(e) with nothing delivered.  count == 0 returns an empty slice without touching the reader."""
        reader, count = self.val(st, args[1]), args[2]
        data = reader.get("data")
        if not isinstance(count, int):
            raise Unsupported("symbolic count")
        self.nread = getattr(self, "nread", 100) + 1
        outs = []
        top = min(count, len(data.elems))
        for k in range(0, top + 1):
            s2 = st.fork()
            a = Adt("AnchoredSlice", {"slice": Slice(data.elems[:k], "anch%d" % self.nread), "anchor": Adt("Anchor", {"id": self.nread})})
            s2.events.append(("read_n", k))
            self.ret(s2, dst, Adt("Ok", [a]), nxt)
            outs.append(s2)
        if count > 0:
            s2 = st.fork()
            s2.events.append(("read_n", "err"))
            self.ret(s2, dst, Adt("Err", [Adt("IoError", {"kind": "reader"})]), nxt)
            outs.append(s2)
        return outs

    def pump_splits(self, maxlen, st):
        """Lengths a Data chunk may take when `maxlen` bytes precede the next sentinel / the end: all of them by default."""
        return range(1, maxlen + 1)

    def both(self, x, cx, y, cy):
        """SMT condition (or True/False) for x == cx and y == cy."""
        def eq(v, k):
            if isinstance(v, Sym):
                return "(= %s %s)" % (v.term, bvconst(k, v.w))
            return v == k
        a, b = eq(x, cx), eq(y, cy)
        if a is False or b is False:
            return False
        if a is True and b is True:
            return True
        if a is True:
            return b
        if b is True:
            return a
        return "(and %s %s)" % (a, b)

    def closure_body(self, clo):
        loc = clo.name[len("closure@"):]
        for k, bodies in self.m.bodies.items():
            b = bodies[-1]
            if b.args and ("closure@" + loc) in b.args[0][1]:
                return b
        raise Unsupported("closure body for " + loc)

    def api_body(self, owner, fn):
        """Body of a public `hcobs::Encoder` / `hcobs::Decoder` method (hcobs/src/lib.rs)."""
        cands = []
        for k, bodies in self.m.bodies.items():
            b = bodies[-1]
            if not (k.startswith("<impl at hcobs/src/lib.rs") and k.endswith("::" + fn)):
                continue
            sig = " ".join(t for _l, t in b.args) + " " + (b.ret_type or "")
            if re.search(r"\b%s<" % owner, sig):
                cands.append(b)
        if len(cands) != 1:
            raise Unsupported("cannot resolve %s::%s (%d candidates)" % (owner, fn, len(cands)))
        return cands[0]

    def resolve(self, callee, args):
        """MIR body for calls into the hcobs encoder/decoder modules."""
        if getattr(self, "real_fss", False) and (callee == "find_stuff_sequence" or callee.endswith("::find_stuff_sequence")):
            cands = [b[-1] for k, b in self.m.bodies.items() if k == "find_stuff_sequence" or k.endswith("::find_stuff_sequence")]
            if len(cands) != 1:
                raise Unsupported("cannot resolve find_stuff_sequence (%d candidates)" % len(cands))
            return cands[0]
        m = re.match(r"^<(EncoderState|DecoderState) as Default>::default$", callee)
        if m:
            mod_ = "encoder::" if m.group(1) == "EncoderState" else "decoder::"
            cands = [b[-1] for k, b in self.m.bodies.items() if k.startswith(mod_) and k.endswith("::default") and b[-1].ret_type and m.group(1) in b[-1].ret_type]
            if len(cands) != 1:
                raise Unsupported("cannot resolve %s (%d candidates)" % (callee, len(cands)))
            return cands[0]
        m = re.match(r"^(Encoder|Decoder)::<'_>::(\w+)(?:::<.*>)?$", callee)
        if m:
            return self.api_body(m.group(1), m.group(2))
        m = re.match(r"^(EncoderState|DecoderState|InitialState|BeforeChunk|MidHeader|InChunk)::(\w+)(?:::<.*>)?$", callee)
        if not m:
            return None
        owner, fn = m.groups()
        mod_ = "encoder::" if owner == "EncoderState" else "decoder::"
        cands = []
        for k, bodies in self.m.bodies.items():
            if k.startswith(mod_) and k.endswith("::" + fn):
                b = bodies[-1]
                if fn in ("new", "new_subsequent", "encode_header", "default") or not b.args:
                    cands.append(b)
                    continue
                t = b.args[0][1].replace("&mut ", "").replace("&", "")
                if t == owner:
                    cands.append(b)
        if owner == "DecoderState" and fn == "new":
            cands = [b for b in cands if b.ret_type and "DecoderState" in b.ret_type]
        if len(cands) != 1:
            raise Unsupported("cannot resolve %s (%d candidates)" % (callee, len(cands)))
        return cands[0]


def split_call(text):
    """`callee(args)` -> (callee, args) where args is the LAST balanced parenthesis group."""
    text = text.strip()
    if not text.endswith(")"):
        raise Unsupported("call syntax: " + text)
    depth = 0
    inq = False
    for i in range(len(text) - 1, -1, -1):
        ch = text[i]
        if ch == '"' and (i == 0 or text[i - 1] != "\\"):
            inq = not inq
        if inq:
            continue
        if ch in ")]}":
            depth += 1
        elif ch in "([{":
            depth -= 1
            if depth == 0:
                return text[:i], text[i + 1:-1]
    raise Unsupported("call syntax: " + text)


def parse_place(text):
    """(base_local, [projection...]) for `_N`, `(*P)`, `(P.k: T)`, `(P as V)`, `P[_i]`."""
    text = text.strip()
    m = re.match(r"^(_\d+)$", text)
    if m:
        return m.group(1), []
    if text.endswith("]") and not text.startswith("["):
        depth = 0
        for i in range(len(text) - 1, -1, -1):
            if text[i] == "]":
                depth += 1
            elif text[i] == "[":
                depth -= 1
                if depth == 0:
                    base, proj = parse_place(text[:i])
                    return base, proj + [("index", text[i + 1:-1].strip())]
    if text.startswith("(") and text.endswith(")"):
        inner = text[1:-1].strip()
        if inner.startswith("*"):
            base, proj = parse_place(inner[1:])
            return base, proj + [("deref",)]
        m = re.match(r"^(.*) as (\w+)$", inner)
        if m and balanced(m.group(1)):
            base, proj = parse_place(m.group(1))
            return base, proj + [("variant", m.group(2))]
        parts = split_top(inner, ":")
        if len(parts) >= 2:
            head = parts[0].strip()
            k = head.rfind(".")
            if k > 0 and balanced(head[:k]):
                base, proj = parse_place(head[:k])
                return base, proj + [("field", head[k + 1:], ":".join(parts[1:]).strip())]
    raise Unsupported("place: " + text)


def conj_all(conds):
    conds = [c for c in conds if c]
    if not conds:
        return None
    if len(conds) == 1:
        return conds[0]
    return "(and %s)" % " ".join(conds)
