"""Property registry: which jobs decide which property at which tier."""
import os
import re

import kanirun
from kanirun import Job
import codecx

VERIF = kanirun.VERIF
COMMON_TRUST = [
    "rustc (MIR) and Kani 0.68 MIR->GOTO translation incl. its std/alloc models",
    "CBMC 6.11 symbolic execution + CaDiCaL SAT",
    "harness-side oracles (reference models written from the property text)",
]
COMMON_ASSUME = [
    "allocation never fails (Kani model)",
    "x86-64 Linux target (usize = 64 bit)",
    "unwinding assertions ON: an insufficient loop bound is reported as inconclusive, never as a pass",
    "debug profile (debug assertions and overflow checks ON), which is what Kani models",
]


def summarise_kani(r):
    """Normalises a kanirun result into the fields evidence.py aggregates."""
    job, res = r["job"], r["res"]
    checks = res.get("checks", [])
    reach = [c for c in checks if c["status"] != "UNREACHABLE"]
    ok = [c for c in checks if c["status"] in ("SUCCESS", "SATISFIED")]
    funcs = sorted({c["fn"] for c in checks if c["fn"] and kanirun.is_repo_fn(c) and c["status"] != "UNREACHABLE"})
    rt = res.get("runtime", {})
    covers = {c["desc"]: c["status"] for c in checks if ".cover." in c["id"]}
    out = {
        "name": job.name, "engine": "kani/cbmc", "status": r["status"], "reason": r["reason"], "log": r["log"],
        "wall": r["wall"], "checks_total": len(checks), "checks_nontrivial": len({(c["id"]) for c in reach}),
        "checks_ok": len(ok), "queries": res.get("sat_calls", 0),
        "solver_s": rt.get("decision procedure", 0.0) + rt.get("Symex", 0.0) + rt.get("Convert SSA", 0.0),
        "functions": funcs, "bounds": job.bounds, "covers": covers,
        "formula": {"vccs": res.get("vccs"), "sat_vars_clauses": res.get("sat_size")},
        "failed": r["failed"], "job": job, "samples": [],
    }
    if r["failed"]:
        out["signature"] = "harness=%s check=%s" % (job.harness, r["failed"][0]["desc"])
    if r.get("witness_sample"):
        out["samples"].append({"harness": job.name, "kind": "concrete input reaching the end of the harness (solver model, Kani concrete playback)",
                               "kani_any_values_in_order": r["witness_sample"]})
    sat = [d for d, s in covers.items() if s == "SATISFIED"]
    if sat:
        out["samples"].append({"harness": job.name, "bounds": job.bounds,
                               "reachability_witnesses_satisfied": sat[:6],
                               "example_obligations": [c["desc"] + " @ " + c["loc"] for c in reach if kanirun.is_repo_fn(c)][:3]})
    return out


class Prop:
    def __init__(self, pid, title, quick, thorough, bounds_quick, bounds_thorough, outside, assumptions=(), trusted=()):
        self.pid = pid
        self.title = title
        self._quick = quick
        self._thorough = thorough
        self._bq = bounds_quick
        self._bt = bounds_thorough
        self.outside = outside
        self.assumptions = COMMON_ASSUME + list(assumptions)
        self.trusted = COMMON_TRUST + list(trusted)

    def bounds(self, tier):
        return self._bq if tier == "quick" else self._bt

    def jobs(self, tier, seed):
        j = self._quick if tier == "quick" else self._thorough
        return j(seed) if callable(j) else list(j)

    def run(self, tier, seed, only=None):
        jobs = self.jobs(tier, seed)
        if only:
            jobs = [j for j in jobs if only in getattr(j, "name", str(j))]
        logdir = os.path.join(kanirun.WORK, "logs" + kanirun.ALT, self.pid + "-" + tier)
        kjobs = [j for j in jobs if isinstance(j, Job)]
        other = [j for j in jobs if not isinstance(j, Job)]
        results = []
        pool, futs = None, []
        if other:
            # SMT-engine jobs are independent processes' worth of work (python + z3/cvc5): run them next to the Kani jobs
            # (separate processes: the interpreter is pure Python and would serialise on the GIL)
            from concurrent.futures import ProcessPoolExecutor
            import multiprocessing
            pool = ProcessPoolExecutor(max_workers=min(len(other), 6), mp_context=multiprocessing.get_context("fork"))
            futs = [pool.submit(_run_other, j, logdir) for j in other]
        if kjobs:
            raw = kanirun.run_jobs(kjobs, logdir)
            summ = [summarise_kani(r) for r in raw]
            # Replay before reporting: cheapest violating job first, stop at the first one that
            # reproduces natively (at most 3 attempts); the others are listed as also failing.
            viol = sorted([x for x in summ if x["status"] == kanirun.VIOLATION], key=lambda x: x["wall"])
            reproduced, attempts = False, 0
            for x in viol:
                x["detail"] = "failed checks: %s" % "; ".join("%s @ %s" % (c["desc"], c["loc"]) for c in x["failed"][:4])
                if reproduced or attempts >= 3:
                    x["reproduced"] = None
                    x["artifact"] = ""
                    x["detail"] = "not replayed (another job of this run was); " + x["detail"]
                    continue
                attempts += 1
                root = os.path.join(VERIF, "replays" + kanirun.ALT, self.pid)
                try:
                    ok, art, detail = kanirun.replay(x["job"], root)
                except Exception as e:  # noqa
                    ok, art, detail = None, "", "replay failed to run: %r" % (e,)
                x["reproduced"] = bool(ok)
                x["artifact"] = art
                x["detail"] = detail + "; " + x["detail"]
                reproduced = reproduced or bool(ok)
            results.extend(summ)
        for f in futs:
            results.extend(f.result())
        if pool:
            pool.shutdown()
        return {"results": results}


def _run_other(job, logdir):
    return job.run(logdir)


def replay_other(pid, art):
    if pid in ("C13", "C18"):
        import wmm
        return wmm.replay(pid, art)
    if art.endswith(".json") and os.path.exists(art):
        try:
            import json
            if "side" in json.load(open(art)):
                import codecx
                return codecx.replay(pid, art)
        except ValueError:
            pass
    import smtengine
    return smtengine.replay(pid, art)


PROPS = {}
X_TRUST_EARLY = ["MIR -> path-enumerating interpreter lib/mirx.py and reference codec lib/codecx.py; OwningIovec abstracted as an append/backfill event log; every SMT query asked to z3 4.8.12 and cvc5 1.0"]
X_ASSUME_EARLY = ["for the Engine X jobs: unwinding edges are not followed (a panic on a feasible path is itself a violation); slices are value lists"]


def reg(p):
    PROPS[p.pid] = p


# ---------------------------------------------------------------------------
# C15 — SlidingDeque

C15_COVERS_INLINE = {"pop_back with exactly half consumed", "pop_front triggers a slide"}

reg(Prop(
    "C15", "SlidingDeque vs reference deque",
    quick=[
        Job("deque", "c15::c15_step_vec", timeout=600, mem_gb=6, bounds="Vec<u8>, backing length <= 6, one symbolic op from an arbitrary valid representation"),
        Job("deque", "c15::c15_step_vec_witness", kind="witness", timeout=600, mem_gb=6, bounds="vacuity twin of c15_step_vec"),
        Job("deque", "c15::c15_step_small_inline", timeout=900, mem_gb=6, covers=C15_COVERS_INLINE,
            bounds="SmallVec<[u8;2]> starting inline (length <= 2), incl. inline->heap spill on push"),
    ],
    thorough=[
        Job("deque", "c15::c15_step_vec", timeout=900, mem_gb=6, bounds="Vec<u8>, backing length <= 6"),
        Job("deque", "c15::c15_step_vec_witness", kind="witness", timeout=900, mem_gb=6, bounds="vacuity twin"),
        Job("deque", "c15::c15_step_vec8", timeout=1800, mem_gb=8, bounds="Vec<u8>, backing length <= 8"),
        Job("deque", "c15::c15_step_small_inline", timeout=1200, mem_gb=6, covers=C15_COVERS_INLINE,
            bounds="SmallVec<[u8;2]> starting inline (length <= 2)"),
        # c15_step_small3 / c15_step_small (spilled SmallVec, backing length <= 3 / <= 4) exist in kani/deque but did not
        # finish within 2400 s each: they are not part of either tier
    ],
    bounds_quick="one inductive step (any of 9 operations, symbolic arguments incl. advance(usize::MAX)) from every valid representation with backing length <= 6 (Vec<u8>) / <= 2 inline (SmallVec<[u8;2]>); element type u8",
    bounds_thorough="as quick plus Vec<u8> backing length <= 8 (a SmallVec that starts spilled did not finish within 40 minutes and is not claimed; the inline harness covers the inline->heap spill on push)",
    outside=["element types other than u8", "backing lengths above the bound (the step is inductive, so any history whose backing length stays within the bound is covered)",
             "the half-space bound is observed through the crate's own check_rep debug assertion (backing length is not observable through the API)"],
))


# ---------------------------------------------------------------------------
# C16 — SortedDeque

C16_OPS = ["push_back_or_panic", "find", "remove", "pop_first", "pop_last", "clear", "remove+find+remove"]
C16_COVER_DESCS = {
    0: {"push a greater live item", "push an erased item is a no-op"},
    1: {"find a missing key inside the range"},
    2: {"remove last exposes tombstones at the back", "remove first exposes tombstones at the front", "middle removal marks a tombstone"},
    3: set(), 4: set(), 5: set(), 6: set(),
}
C16_ALL_COVERS = set().union(*C16_COVER_DESCS.values()) | {"pop_last after two pop_first (F2 shape)"}


def c16_job(conv, op, pops=0, timeout=900, witness=False):
    name = "c16::c16_%s_%sop%d%s" % (conv, ("p%d_" % pops) if pops else "", op, "_witness" if witness else "")
    allowed = set(C16_ALL_COVERS) - C16_COVER_DESCS[op]
    if pops == 2 and op == 4:
        allowed.discard("pop_last after two pop_first (F2 shape)")
    return Job("deque", name, timeout=timeout, mem_gb=8, covers=allowed, kind="witness" if witness else "proof",
               bounds="%s convention, <=5 physical items with symbolic keys/tombstones, %d pop_first then op=%s"
               % (conv, pops, C16_OPS[op]))


def c16_quick(seed):
    # 7 jobs (a quick run is stopped after 15 min; 14 parallel jobs took 937 s, 9 took 718 s):
    # the five mutating operation kinds + find for the pairs convention, two kinds (seed-rotated) for whole items
    jobs = [c16_job("pairs", op) for op in (0, 2, 3, 4)]
    jobs += [c16_job("whole", [2, 4, 3, 0][seed % 4])]
    jobs += [c16_job("whole", 5, pops=1)]   # clear() after a pop_first (consumed prefix > 0): cheap (~40 s)
    jobs.append(Job("deque", "c16::c16_push_not_greater_panics_pairs", kind="must_panic", note="assertion failed: self.marker.cmp", timeout=300, mem_gb=4,
                    bounds="pairs: every live item not greater than the last must panic"))
    jobs.append(Job("deque", "c16::c16_push_not_greater_panics_whole", kind="must_panic", note="assertion failed: self.marker.cmp", timeout=300, mem_gb=4,
                    bounds="whole-item: every live item not greater than the last must panic"))
    return jobs


def c16_thorough(seed):
    jobs = []
    for conv in ("pairs", "whole"):
        for op in range(7):
            jobs.append(c16_job(conv, op, timeout=1800))
        jobs.append(c16_job(conv, 2, witness=True, timeout=1800))
        for pops in (1, 2):
            for op in range(7):
                jobs.append(c16_job(conv, op, pops=pops, timeout=2400))
        jobs.append(Job("deque", "c16::c16_push_not_greater_panics_%s" % conv, kind="must_panic", note="assertion failed: self.marker.cmp",
                        timeout=300, mem_gb=4, bounds="%s: every live item not greater than the last must panic" % conv))
    return jobs


reg(Prop(
    "C16", "SortedDeque vs reference ordered map",
    quick=c16_quick, thorough=c16_thorough,
    bounds_quick="one step from every valid physical layout of <= 5 items (symbolic strictly increasing u8 keys, symbolic tombstones, live ends): operation kinds push / remove / pop_first / pop_last, each as its own job (operation KIND enumerated, all data symbolic) for the (key, Option<value>) convention, 1 kind (seed-rotated) plus clear() after one pop_first for the whole-item convention; must-panic harnesses for both conventions",
    bounds_thorough="all 7 operation kinds x {0,1,2} preceding pop_first calls x both conventions",
    outside=["more than 5 physical items", "comparator objects other than ()", "key types other than u8",
             "operation kind is enumerated per job (a symbolic kind ran out of memory); the layout, keys, values, tombstones and arguments are symbolic"],
))


# ---------------------------------------------------------------------------
# C12 — MessageView

reg(Prop(
    "C12", "MessageView total on untrusted bytes",
    quick=[
        Job("tlv", "c12::c12_view24", timeout=900, mem_gb=8, bounds="arbitrary byte string of symbolic length <= 24 (pair count word: full 32 bits; up to 3 pairs accepted)"),
        Job("tlv", "c12::c12_view24_witness", kind="witness", timeout=900, mem_gb=8, bounds="vacuity twin"),
    ],
    thorough=[
        Job("tlv", "c12::c12_view24", timeout=900, mem_gb=8, bounds="arbitrary byte string, length <= 24"),
        Job("tlv", "c12::c12_view24_witness", kind="witness", timeout=900, mem_gb=8, bounds="vacuity twin"),
        Job("tlv", "c12::c12_view40", timeout=3000, mem_gb=16, bounds="arbitrary byte string, length <= 40 (up to 5 pairs accepted)"),
    ],
    bounds_quick="every byte string of length 0..24, symbolic length, symbolic index and symbolic lookup tag",
    bounds_thorough="every byte string of length 0..40",
    outside=["byte strings longer than the bound (messages with more than 3 resp. 5 pairs)", "Cow::Owned storage (same code path; only Borrowed is driven)"],
))


# ---------------------------------------------------------------------------
# C11 — Rough TLV encode / round trip / rejection set

def c11_layout(n, ctor, timeout=1500, witness=False):
    cname = {0: "new", 1: "slice", 2: "sorted"}[ctor]
    allowed = set()
    if ctor == 2:
        allowed.add("unsorted input")
    if n < 2:
        allowed |= {"repeated tag: ties keep insertion order", "unsorted input", "empty first value (offset 0 repeated)"}
    return Job("tlv", "c11::c11_layout_n%d_%s%s" % (n, cname, "_witness" if witness else ""), timeout=timeout, mem_gb=10,
               covers=allowed, kind="witness" if witness else "proof",
               bounds="N=%d pairs, constructor %s, symbolic u32 tags (ties included), value lengths 0..2, symbolic bytes; array sink; MessageView round trip" % (n, cname))


def c11_reject(n, ctor):
    cname = {0: "new", 1: "slice", 2: "sorted"}[ctor]
    allowed = {"sum overflows usize"} if n < 2 else set()
    return Job("tlv", "c11::c11_reject_n%d_%s" % (n, cname), timeout=600, mem_gb=4, covers=allowed,
               bounds="N=%d pairs with value lengths ranging over ALL of usize (length-only value type), constructor %s" % (n, cname))


reg(Prop(
    "C11", "Rough TLV encode, round trip, rejection set",
    quick=[c11_layout(0, 0, 600), c11_layout(1, 0, 900), c11_layout(2, 0), c11_layout(2, 1), c11_layout(2, 2),
           c11_layout(2, 1, witness=True),
           c11_reject(1, 0), c11_reject(2, 0), c11_reject(3, 0), c11_reject(3, 1), c11_reject(2, 2), c11_reject(3, 2)],
    thorough=[c11_layout(0, 0, 600), c11_layout(1, 0, 900), c11_layout(2, 0), c11_layout(2, 1), c11_layout(2, 2),
              c11_layout(2, 1, witness=True), c11_layout(3, 0, 2400), c11_layout(3, 1, 2400), c11_layout(3, 2, 2400),
              c11_reject(1, 0), c11_reject(2, 0), c11_reject(3, 0), c11_reject(3, 1), c11_reject(2, 2), c11_reject(3, 2)],
    bounds_quick="layout/round trip: N in {0,1,2} pairs (N enumerated per job), arbitrary u32 tags, value lengths 0..2, all three constructors; rejection set: N <= 3 with value lengths over all of usize",
    bounds_thorough="as quick with N = 3 added for all three constructors",
    outside=["N > 3 pairs; pair counts above i32::MAX (needs a 2^31-element slice)", "value lengths > 2 in the layout harness (lengths are unbounded in the rejection harness)",
             "sinks other than the harness array sink in this tier (OwningIovec / hcobs::Encoder sinks are exercised by C03/C01 harness families)",
             "nested messages and Cow values (thorough extensions, when present in the job list)"],
))


# ---------------------------------------------------------------------------
# C17 — ByteArena::read_n under I/O faults

ARENA8 = dict(cfgs=("woodpile_verif", "woodpile_verif_arena"), env={"WOODPILE_VERIF_ARENA_CHUNK": "8,0"})
C17_COVERS = ["all attempts interrupted", "Interrupted then EOF: empty success", "hard error after data is a success",
              "filled through short reads", "attempt budget exhausted with a short result"]


def c17_job(count, state, witness=False, quick=False):
    name = "c17::c17_%sread_n_c%d_%s%s" % ("q_" if quick else "", count, state, "_witness" if witness else "")
    if count == 0:
        allowed = set(C17_COVERS)
    elif count < 3:
        allowed = {"filled through short reads"}
    else:
        allowed = set()
    if count == 1:
        allowed.add("attempt budget exhausted with a short result")
        allowed.add("hard error after data is a success")
    n = 3 if quick else 4
    return Job("arena", name, unwind_fns={r"ByteArena::read_n_impl": n + 1}, timeout=900, mem_gb=8, covers=allowed,
               kind="witness" if witness else "proof",
               bounds="count=%d, arena %s, symbolic reader script of <=%d actions over {deliver 1..3, Interrupted, EOF, hard error}, symbolic max_attempts 1..%d, 8-byte arena chunks" % (count, state, n, n),
               **ARENA8)


reg(Prop(
    "C17", "read_n under I/O faults",
    quick=[c17_job(4, "fresh"), c17_job(3, "fresh"), c17_job(1, "fresh"), c17_job(0, "fresh"),
           c17_job(4, "nearly_full"), c17_job(3, "nearly_full"), c17_job(2, "full_chunk"),
           c17_job(3, "fresh", witness=True, quick=True), codecx.ReadWrappers("quick")],
    thorough=[c17_job(c, "fresh") for c in range(5)] + [c17_job(c, "nearly_full") for c in (0, 3, 4)]
    + [c17_job(c, "full_chunk") for c in (2, 4)] + [c17_job(3, "fresh", witness=True, quick=True), codecx.ReadWrappers("thorough")],
    bounds_quick="ByteArena::read_n (Kani): count in {0,1,3,4} (concrete per job), every reader script of <= 4 actions, max_attempts 1..4, arena pre-state in {no cache, 3 bytes left in an 8-byte chunk, chunk exactly full}. Codec wrappers (Engine X, read_n replaced by the contract just described): Encoder::encode_read / Decoder::decode_read called twice, every reader content <= 3 bytes, every first count, plus 300- and 257-byte contents: Ok(n) is the number of bytes delivered, the codec output is that of the delivered prefix, a failed read appends nothing",
    bounds_thorough="count 0..4, same scripts, all three arena pre-states; wrapper contents <= 5 bytes",
    outside=["scripts longer than 4 actions, counts above 4, production chunk sizes (4 KiB..1 MiB; hook H2 shrinks them to 8 bytes)",
             "count is concrete per job (a symbolic count makes the chunk allocation size symbolic, which exhausted 12 GB)",
             "error payloads: errors are io::Error::from(ErrorKind) (no heap payload)",
             "the wrappers are checked against read_n's contract, not against the real read_n in one piece (assume/guarantee: the Kani jobs decide the contract)"],
    assumptions=["hook H2: arena chunk size 8 bytes (constant sequence) through --cfg woodpile_verif_arena"],
    trusted=["for the wrapper job: the MIR interpreter lib/mirx.py, the reference codec lib/codecx.py, OwningIovec as an event log"],
))


# ---------------------------------------------------------------------------
# C14 — VouchedTime window (Engine M: MIR -> SMT; Engine K for the public constructor)

import smtengine  # noqa: E402


def c14_k(name, timeout=1800, witness=False, allowed=()):
    return Job("vouched", "c14::" + name, timeout=timeout, mem_gb=10, kind="witness" if witness else "proof", covers=set(allowed), stubbing=True,
               bounds="VouchedTime::new through the public API: concrete calendar minute, symbolic second/nanosecond, symbolic u64 base time, voucher produced for a symbolic (possibly different) value")


C14_ALL = {"accepted at the forward edge", "accepted at the backward edge", "rejected one past the forward edge", "rejected one past the backward edge"}
C14_FWD = {"accepted at the backward edge", "rejected one past the backward edge"}
C14_BACK = {"accepted at the forward edge", "rejected one past the forward edge"}

C14_K = [c14_k("c14_new_epoch_minute", allowed=C14_FWD), c14_k("c14_new_epoch_minute_back", allowed=C14_BACK)]
C14_K_MORE = [c14_k("c14_new_before_epoch_minute", allowed=C14_ALL), c14_k("c14_new_2024_minute", allowed=C14_FWD),
              c14_k("c14_new_2024_minute_witness", witness=True), c14_k("c14_new_2024_wrong_voucher", allowed=C14_ALL - {"rejected one past the forward edge"}),
              c14_k("c14_new_last_minute", allowed=C14_BACK)]

p14 = Prop(
    "C14", "VouchedTime window",
    quick=[smtengine.C14Kernel(), smtengine.C14Compose()] + C14_K + [C14_K_MORE[2], C14_K_MORE[3]],
    thorough=[smtengine.C14Kernel(), smtengine.C14Compose()] + C14_K + C14_K_MORE,
    bounds_quick="window kernel: all 2^128 x 2^64 (local ms, base ms) inputs, no bound; composition with the voucher verdict and the ns->ms conversion: all representable local times at ns resolution x all u64 base times; public constructor new/get_local_time: calendar minutes 1970-01-01 00:00 and 2024-04-13 17:00 with symbolic second and nanosecond, concrete base times placed so that both window edges fall inside the minute, right and wrong voucher",
    bounds_thorough="as quick plus the calendar minutes 1969-12-31 23:59 and 9999-12-31 23:59",
    outside=["the `time` crate's calendar conversion outside the listed minutes (Engine M treats unix_timestamp_nanos as an arbitrary i128 in the calendar range)",
             "raffle's voucher arithmetic on symbolic operands (arbitrary Bool in Engine M; concrete operands in the Kani harnesses: symbolic operands did not finish in 50 minutes)",
             "VouchedTime::now (passes the clock value straight to `new`; not encoded)"],
    trusted=["MIR -> SMT-LIB translator lib/mir.py (validated on every run against the repository's 17 boundary vectors)", "z3 4.8.12 and cvc5 1.0 (must agree on every query)"],
)
p14.engine = "mir-smt + kani-cbmc"
p14.technique = "symbolic execution of rustc MIR (check_vouched_time, VouchedTime::check) into SMT-LIB bit-vector queries decided by z3 and cvc5 for all inputs, plus Kani/CBMC harnesses on the public constructor"
reg(p14)


# ---------------------------------------------------------------------------
# C08 — StreamChunker (one inductive pump step from an arbitrary chunker state, hook H5)

C08_COVERS = ["data split right before a held-back FE", "data chunk ending in FE (no FD follows)", "carried FE completed by FD from the reader",
              "end of stream", "full carry-over buffer", "short reads and an interrupted call"]


def c08_job(S, block, witness=False, timeout=1500, sched=2):
    m = max(block, 2)
    prefix = {2: "c08_step", 1: "c08_q", 0: "c08_q0"}[sched]
    allowed = set() if sched >= 2 else set(C08_COVERS) - {"carried FE completed by FD from the reader"}
    sched_txt = {2: "2 symbolic calls (short reads of 1..3 bytes, <=1 interrupted) then full reads", 1: "1 symbolic call (short read of 1..3 bytes or an interrupted call) then full reads",
                 0: "full reads"}[sched]
    return Job("stream", "c08::%s_s%d_b%d%s" % (prefix, S, block, "_witness" if witness else ""),
               unwind_fns={r"StreamChunker::pump": 3, r"ByteArena::read_n_impl": sched + 4, r"find_stuff_sequence": m + 1},
               timeout=timeout, mem_gb=14, kind="witness" if witness else "proof", stubbing=True, covers=allowed,
               bounds="io_block_size=%d; arbitrary chunker state (carry-over buffer of 0..%d arbitrary bytes, arbitrary offset <= 2^48), remaining stream so that buffer+rest <= %d bytes, reader schedule: %s; 8-byte arena chunks" % (block, m, S, sched_txt),
               **ARENA8)


reg(Prop(
    "C08", "StreamChunker tiles the stream",
    # quick: two jobs (a job takes ~8-10 min and the quick budget is 15 min): block 0 (clamped to 2) with one symbolic
    # reader event, block 4 with full reads; the 2-event schedules and the other block sizes are in the thorough tier
    quick=[c08_job(4, 0, sched=1, timeout=800), c08_job(6, 4, sched=0, timeout=800)],
    thorough=[c08_job(4, 0), c08_job(4, 1), c08_job(4, 2), c08_job(5, 3), c08_job(5, 3, witness=True), c08_job(6, 4),
              c08_job(6, 2, timeout=2400), c08_job(6, 3, timeout=2400), c08_job(8, 5, timeout=3000), c08_job(8, 6, timeout=3000)],
    bounds_quick="one pump step from EVERY chunker state satisfying the carry-over invariant: io_block_size 0 (clamped to 2) with remaining stream <= 4 bytes and one symbolic reader event (short read or interrupted call), io_block_size 4 with remaining stream <= 6 bytes and full reads; by induction this covers pump sequences of any length whose per-step window fits the bound",
    bounds_thorough="io_block_size in {0,1,2,3,4,5,6}, remaining stream <= 4..8 bytes",
    outside=["block sizes above 6 and the 512 KiB default (the block size is concrete per job: a symbolic size makes the arena allocation size symbolic)",
             "hard I/O errors (the property quantifies over short reads and interrupted calls)", "more than one interrupted call within one pump",
             "the induction itself (invariant => next state satisfies invariant) is proved per step by the solver; composing the steps is a pencil argument stated in kani/stream/src/c08.rs"],
    assumptions=["hook H5 (cfg woodpile_verif): StreamChunker::verif_from_parts / verif_buf / verif_offset construct and observe the chunker state", "hook H2: 8-byte arena chunks"],
))


# ---------------------------------------------------------------------------
# C13 / C18 — AtomicBaseTime under the Rust memory model (Engine W)

import wmm  # noqa: E402

W_TRUST = ["MIR -> event-structure extractor lib/wmm.py + lib/mir.py", "RC11-style axiomatisation (release/acquire/relaxed atomics without release sequences, coherence CoWW/CoRW/CoWR/CoRR, (sb U rf) acyclic, mutex = lock order + synchronises-with); exact happens-before by Floyd-Warshall",
           "z3 4.8.12 and cvc5 1.0 must agree on every query"]
W_ASSUME = ["std::sync::Mutex gives mutual exclusion and release/acquire synchronisation", "CheckingParameters::check is an uninterpreted predicate CHK with CHK(b, v) assumed for the initial pair and for every update's arguments (a bad voucher is a documented panic)",
            "no lock poisoning except on try_lock's explicitly handled Poisoned arm (explored structurally)", "64-bit sequence counter does not wrap"]
p13 = Prop("C13", "AtomicBaseTime snapshots never torn / never backwards",
           quick=[wmm.C13Job("quick")], thorough=[wmm.C13Job("thorough")],
           bounds_quick="all interleavings AND all reads-from/modification orders allowed by the orderings found in the MIR, for: writer{2 updates}||reader; 2 writers{1 update}||reader; writer{2 updates}||reader{2 snapshots}; thread{update,snapshot}||writer; 2 writers; reader loop unrolled (#sequence stores + 1) times; every thread may also be suspended forever after any event; symbolic 64-bit base times and vouchers",
           bounds_thorough="as quick (the writer{3 updates}||reader scenario is not part of either tier: its reachability witness did not come back from z3 or cvc5 within 600 s)",
           outside=["more threads / operations than the listed scenarios", "sequence counter wrap-around at 2^64", "SC accesses and fences (the code uses none; the extractor would reject them)"],
           assumptions=W_ASSUME, trusted=W_TRUST)
p13.engine = "mir-wmm-smt"
p13.technique = "bounded weak-memory model checking: thread programs extracted from rustc MIR into guarded event trees, RC11-style axioms in SMT, z3 + cvc5"
reg(p13)
p18 = Prop("C18", "readers and try_update never wait",
           quick=[wmm.C18Job("quick")], thorough=[wmm.C18Job("thorough")],
           bounds_quick="snapshot's event tree with the loop unrolled 5 times contains only loads (no lock operation on any path); snapshot completes within (#sequence stores+1) iterations with writer{2 updates} suspended at ANY event (symbolic stop point, lock possibly held); try_update against a writer suspended holding the lock returns false, and no path of try_update (incl. the poisoned arm) reaches a blocking Mutex::lock; get_base_time_unlocked calls only snapshot",
           bounds_thorough="reader loop unrolled 7 times for the structural check",
           outside=["more than one suspended writer besides the listed scenarios", "fairness/liveness beyond 'completes within the unrolling bound'"],
           assumptions=W_ASSUME, trusted=W_TRUST)
p18.engine = "mir-wmm-smt"
p18.technique = p13.technique
reg(p18)


# ---------------------------------------------------------------------------
# C19 — NFS voucher module with stubbed file system and clocks

C19_STUBS = ["std::fs::File::metadata -> Ok(zeroed Metadata)", "MetadataExt::{dev,ctime,ctime_nsec} -> symbolic values chosen by the harness for the file being touched",
             "std::fs::File::set_times -> Ok(())", "std::fs::OpenOptions::open -> a File over a dummy descriptor", "<OwnedFd as Drop>::drop -> no-op",
             "std::time::Instant::now -> a fixed instant", "std::time::SystemTime::now -> epoch + 5000 s"]


def c19_job(name, allowed=(), timeout=1500):
    return Job("vouched", "c19::" + name, stubbing=True, timeout=timeout, mem_gb=10, covers=set(allowed),
               bounds="module calls as named; symbolic u64 device ids; change times from {1000..1003 s} x {1 ms, 999 ms}; process-wide statics start from their initial values")


p19 = Prop(
    "C19", "NFS base time forward only, trusted devices only",
    quick=[c19_job("c19_untrusted_before_any_trust"), c19_job("c19_trust_then_observe"), c19_job("c19_observe_twice"),
           c19_job("c19_get_base_time_scans_trusted_paths"), c19_job("c19_maybe_observe_file_time")],
    thorough=[c19_job("c19_untrusted_before_any_trust"), c19_job("c19_trust_then_observe"), c19_job("c19_observe_twice"),
              c19_job("c19_get_base_time_scans_trusted_paths"), c19_job("c19_maybe_observe_file_time")],
    # c19_scan_base_time ({add_trusted_path, scan_base_time}) exists in kani/vouched but runs out of memory: not in either tier
    bounds_quick="histories of <= 3 module calls: {observe before any trust}; {add_trusted_path, observe}; {add_trusted_path, observe, observe}; {add_trusted_path, get_base_time(now past the threshold)}; {add_trusted_path, maybe_observe_file_time}; device ids fully symbolic (trusted / untrusted / path moved to another device), change times from an 8-value domain covering older / equal / newer",
    bounds_thorough="as quick ({add_trusted_path, scan_base_time} ran out of memory in CBMC and is not claimed)",
    outside=["real file systems (every fs/clock call is a stub; the stub list is part of the claim)", "change times outside the 8-value domain (the voucher computation on fully symbolic times did not finish in 50 minutes)",
             "concurrent callers (C13/C18 cover the shared cell)", "RwLock poisoning; I/O errors from stat/open/touch"],
    assumptions=["stubs: " + "; ".join(C19_STUBS), "stat(2) contract: ctime >= 0, 0 <= nsec < 10^9"],
)
p19.technique = "bounded model checking (Kani/CBMC/SAT) of the real nfs_voucher module with the file system and clocks replaced by nondeterministic stubs (-Z stubbing)"
reg(p19)


# ---------------------------------------------------------------------------
# OwningIovec skeleton family (C03, C04, C05, C10, C20)

ARENA4 = dict(cfgs=("woodpile_verif", "woodpile_verif_arena"), env={"WOODPILE_VERIF_ARENA_CHUNK": "4,0", "WOODPILE_VERIF_COPY_LIMITS": "1,3"})
IOV_UW = {"swap_nonoverlapping": 40, "Chunk as .*Drop.*drop": 6, "find_hint_size": 10}
IOV_DESC = {
    "k1_patch_merge_consume": "push_borrowed(2), register_patch(1), push_copy(3) merging into the placeholder's slice, consume(k), backfill, consume(k2)",
    "k2_merge_regrow_advance": "push_copy(2)+push_copy(2) merged, push_copy(3) into a new chunk, advance_slices(n) inside the merged slice, push(1), consume(k)",
    "k3_anchored_push_flush": "push_copy(2), arena read_n(3) -> components -> push_borrowed + push_anchor, flush_cache, consume(k)",
    "k4_fill_order_0132": "four placeholders in flight, backfilled in the order 0,1,3,2 (the F2 shape), consume(k)",
    "k4_fill_order_3210": "four placeholders in flight, backfilled in the order 3,2,1,0, consume(k)",
    "k4_fill_order_1302": "four placeholders in flight, backfilled in the order 1,3,0,2, consume(k)",
    "k5q_clear_resets_accounting": "push_copy(3), consume(k), clear, push_borrowed(2)",
    "k5_clear_then_reuse": "push_copy(3), push_borrowed(2), consume(k), register_patch(1), clear, push_copy(3), consume(k2)",
    "k6q_take_moves_pending_placeholder": "push_borrowed(2), register_patch(1), take(); source empty and usable; backfill through the taken value",
    "k6_take_with_pending_placeholder": "push_copy(2), register_patch(1), take(), push_borrowed on the source, backfill + consume(k) on the taken value",
    "k7q_clone_survives_drain_and_refill": "push_copy(3), clone, drain the original, push_copy(2) on the original; the clone still shows its bytes",
    "k7_clone_drain_refill_original": "push_copy(3), clone, consume(k), push_copy(2), register_patch+backfill on the original; clone unchanged",
    "k7b_clone_then_mutate_clone": "push_copy(2), clone, push_borrowed(2) on the clone, push_copy(1) merging in place on the original, consume(k) on the clone",
    "k8q_consume_clamped_to_stable_prefix": "push_borrowed(2), register_patch(1), push_borrowed(1), consume(k) with unconstrained k, backfill",
    "k8_overasking_consumers_with_pending": "push_borrowed(2), register_patch(2), push_borrowed(2), consume(k), backfill, consume(k2)",
    "k8b_byte_drain_before_merged_placeholder": "push_copy(2), register_patch(1) merged into the same slice, advance_slices(n), push_copy(1), backfill",
    "k8c_overasking_advance_with_pending": "push_borrowed(2), register_patch(1), advance_slices(n) with unconstrained n, backfill",
    "k9_read_extend_pop": "extend([2 bytes, empty, 3 bytes]), push_copy(1), Read::read into a buffer of symbolic length <= 4, pop_front",
    "k11q_drop_restores_counters": "push_copy(3) x2 (two chunks), consume(k), drop: live chunk/byte counters return to their start values",
    "k11_drop_orders_restore_counters": "two chunks, clone, consume(k), take_arena, drop {iovec, clone, arena} in a symbolic order: counters restored",
    "k12_clear_releases_chunks": "push_copy(3), clear, flush_cache: no chunk stays pinned; reuse; drop",
    "k13_anchored_slice_outlives_arena": "read_n(4), split_at(symbolic), clone, drop the arena, skip_prefix/drop_suffix/take, read every byte, drop in stages",
}


def iov_job(name, timeout=1200, mem=16):
    return Job("iovec", "skel::" + name, unwind_fns=IOV_UW, timeout=timeout, mem_gb=mem, stubbing=True,
               bounds="skeleton: " + IOV_DESC[name] + "; concrete operation kinds and slice lengths, symbolic bytes / counts / probe position; 4-byte arena chunks, copy thresholds 1/3",
               **ARENA4)


IOV_OUTSIDE = ["operation kinds and slice lengths are concrete per skeleton (symbolic kinds or lengths exhausted 24 GB): the skeleton list is the claim",
               "histories longer than the skeletons; slices longer than 3 bytes; the production thresholds 64 / 256 / 4096 themselves (hook H2 shrinks them)",
               "two arena-copying OwningIovecs inside one harness (a CBMC pointer-provenance artifact makes such harnesses fail spuriously; clones and taken values only use borrowed pushes)",
               "uninitialised-memory reads (Kani's -Z uninit-checks crashes); allocation failure"]
IOV_ASSUME = ["hook H2: 4-byte arena chunks (constant sequence), copy thresholds SMALL_COPY=1 / MAX_OPPORTUNISTIC_COPY=3 (cfg woodpile_verif_arena)"]

IOV_NOT_DECIDED = ("ConsumingIovec::advance_slices is decided only as an arithmetic kernel over a stubbed stable prefix (Engine X, job advance_slices_kernel); " "skeletons that did NOT finish within 20 GB / 40 min and are therefore not part of any claim: k2 (merge + regrow + advance_slices), k4 (four placeholders, out-of-order fills), "
                   "k5/k6/k7 (longer variants), k8b/k8c (advance_slices next to a pending placeholder), k9 (Read::read / extend / pop_front), k11 (clone + take_arena, symbolic drop order); "
                   "in particular ConsumingIovec::advance_slices / Read::read are only exercised through the HCOBS drain harnesses")

reg(Prop("C03", "OwningIovec FIFO pipe",
         quick=[iov_job("k3_anchored_push_flush"), iov_job("k5q_clear_resets_accounting"), iov_job("k8q_consume_clamped_to_stable_prefix"), iov_job("k7q_clone_survives_drain_and_refill"), codecx.AdvanceSlices("quick", pid="C03")],
         thorough=[iov_job(n, 3000, 24) for n in ("k1_patch_merge_consume", "k3_anchored_push_flush", "k5q_clear_resets_accounting",
                                                    "k8q_consume_clamped_to_stable_prefix", "k8_overasking_consumers_with_pending", "k7q_clone_survives_drain_and_refill")] + [codecx.AdvanceSlices("thorough", pid="C03")],
         bounds_quick="Engine X: advance_slices' byte arithmetic (min(count, stable bytes) for every 64-bit count over stubbed stable prefixes of <= 3 slices). Kani: 4 skeletons of 3-5 operations (anchored push + flush + consume, consume + clear + reuse, over-asking consume with a pending placeholder, clone/drain/refill); after the operations the whole read side is compared with a shadow buffer at a symbolic position, total_size/len/return values checked exactly",
         bounds_thorough="6 skeletons incl. placeholder + merging copy + two consumes, and the two-byte-placeholder over-asking skeleton",
         outside=IOV_OUTSIDE + [IOV_NOT_DECIDED], assumptions=IOV_ASSUME))
reg(Prop("C04", "pending backpatches invisible",
         quick=[iov_job("k8q_consume_clamped_to_stable_prefix"), iov_job("k6q_take_moves_pending_placeholder"), c16_job("pairs", 3), codecx.AdvanceSlices("quick", pid="C04")],
         thorough=[iov_job(n, 3000, 24) for n in ("k1_patch_merge_consume", "k8q_consume_clamped_to_stable_prefix", "k8_overasking_consumers_with_pending", "k6q_take_moves_pending_placeholder")] + [c16_job("pairs", 3, timeout=1800), codecx.AdvanceSlices("thorough", pid="C04")],
         bounds_quick="the placeholder table itself: one pop_first step of SortedDeque from every valid tombstone layout of <= 5 items (the container behind OwningIovec::backrefs; job shared with C16); advance_slices never consumes into the slice of a pending placeholder (Engine X kernel); 2 skeletons with one placeholder in flight: over-asking slice consumer before and after the backfill; take() with a pending placeholder; stable prefix never reaches the earliest pending placeholder, iovs()/has_pending_backrefs agree, after the backfill everything is consumable with the filled value",
         bounds_thorough="4 skeletons incl. a placeholder merged with a following copy and a two-byte placeholder",
         outside=IOV_OUTSIDE + ["more than one placeholder in flight inside this family (the four-placeholder / out-of-order-fill skeletons did not finish; out-of-order fills are exercised at the SortedDeque level by C16 and through the Encoder by C07/C09)", IOV_NOT_DECIDED],
         assumptions=IOV_ASSUME))
reg(Prop("C05", "exposed slices point into live memory",
         quick=[iov_job("k13_anchored_slice_outlives_arena"), iov_job("k3_anchored_push_flush"), iov_job("k7q_clone_survives_drain_and_refill"), iov_job("k12_clear_releases_chunks"), codecx.Anchors("quick")],
         thorough=[iov_job(n, 3000, 24) for n in ("k13_anchored_slice_outlives_arena", "k3_anchored_push_flush", "k7q_clone_survives_drain_and_refill", "k7b_clone_then_mutate_clone",
                                                    "k12_clear_releases_chunks", "k11q_drop_restores_counters", "k1_patch_merge_consume", "k6q_take_moves_pending_placeholder")] + [codecx.Anchors("thorough")],
         bounds_quick="Engine X: on every path of Encoder::encode_anchored / Decoder::decode_anchored (every byte string <= 4, every cut, error paths included, a 300-byte piece) bytes pushed by reference travel with their Anchor; CBMC's pointer checks (deallocated / dead object, out-of-bounds, invalid pointer) on every dereference, with every exposed byte read at a symbolic position after the operations of 4 skeletons: AnchoredSlice parts outliving their arena, anchored push + cache flush, clone sharing a chunk with a drained-and-refilled original, clear + flush + reuse + real drop",
         bounds_thorough="8 skeletons",
         outside=IOV_OUTSIDE + ["StreamChunker chunks are covered by the C08 step harness's own pointer checks; Encoder/Decoder anchored input by the C07/C09 harnesses when those are run; StreamReader records by C06", IOV_NOT_DECIDED],
         assumptions=IOV_ASSUME))
reg(Prop("C10", "arena memory reclaimed",
         quick=[iov_job("k12_clear_releases_chunks"), iov_job("k11q_drop_restores_counters"), codecx.StreamRecords("quick", pid="C10"), codecx.EncoderVsReference("quick")],
         thorough=[iov_job(n, 3000, 24) for n in ("k12_clear_releases_chunks", "k11q_drop_restores_counters")] + [codecx.StreamRecords("thorough", pid="C10"), codecx.EncoderVsReference("thorough")],
         bounds_quick="streaming half (Engine X, event level): every feasible Encoder path keeps at most one placeholder pending with <= max_chunk+2 bytes behind it (what a draining consumer cannot take yet is bounded independently of the stream length: job encoder_vs_reference); StreamReader clears its record buffer at every call and stops buffering a record as soon as the judge skips it (job stream_reader_records, bounds as C06). Drop half (Kani): 2 skeletons that end in real drops and compare ByteArena::num_live_chunks/bytes with their starting values: clear + flush releases every chunk; two chunks, consume(k), drop (the first chunk is released as soon as its only slice is consumed)",
         bounds_thorough="same as quick",
         outside=IOV_OUTSIDE + ["the streaming half is decided at the level of the event log only (bytes that must stay buffered), not as live arena bytes: how many arena chunks those bytes pin (slice merging, chunk sizes, anchors) is the real OwningIovec / ByteArena, of which only the two drop skeletons are decided", IOV_NOT_DECIDED],
         assumptions=IOV_ASSUME + X_ASSUME_EARLY, trusted=X_TRUST_EARLY))
reg(Prop("C20", "clone / take independence",
         quick=[iov_job("k6q_take_moves_pending_placeholder"), iov_job("k7q_clone_survives_drain_and_refill"), iov_job("k7b_clone_then_mutate_clone")],
         thorough=[iov_job(n, 3000, 24) for n in ("k6q_take_moves_pending_placeholder", "k7q_clone_survives_drain_and_refill", "k7b_clone_then_mutate_clone")],
         bounds_quick="3 skeletons: take() with a pending placeholder (source empty and usable, backfill through the taken value); clone then drain + refill the original; clone, borrowed push + consume on the clone while the original merges a copy in place",
         bounds_thorough="same as quick",
         outside=IOV_OUTSIDE + [IOV_NOT_DECIDED], assumptions=IOV_ASSUME))


# ---------------------------------------------------------------------------
# C07 — HCOBS wire format: the kernels that could be decided (see DESIGN.md B.5 for what could not)

HCOBS_PROD = dict(cfgs=("woodpile_verif", "woodpile_verif_arena"), env={"WOODPILE_VERIF_ARENA_CHUNK": "8,0"})


def c07_job(name, bounds, timeout=900):
    return Job("hcobs", name, timeout=timeout, mem_gb=10, bounds=bounds,
               unwind_fns={"swap_nonoverlapping": 10, "SmallVec.*truncate": 3, "find_hint_size": 10}, **HCOBS_PROD)


C07_JOBS = [
    c07_job("prod::prod_limits_are_252_and_64008", "the limits in force in a build WITHOUT the limit-replacing hook are exactly 252 / 64008, RADIX 253, STUFF_SEQUENCE FE FD"),
    c07_job("prod::prod_header_kernel_two_bytes", "EncoderState::encode_header (hook H4) for EVERY chunk size 0..=64008: backfilled bytes are [size mod 253, size div 253], both < 0xFD"),
    c07_job("prod::prod_header_kernel_one_byte", "EncoderState::encode_header for EVERY first-chunk size 0..=252"),
    c07_job("fss::fss_first_occurrence", "hcobs::find_stuff_sequence on EVERY byte string of length <= 40: index of the first FE FD, or None"),
]
X_TRUST = ["MIR -> path-enumerating interpreter lib/mirx.py (concrete control flow and lengths, symbolic bytes, z3 feasibility pruning) and the reference codec lib/codecx.py written from the format description in the property text",
           "OwningIovec is abstracted as an append/backfill event log (its own behaviour is the subject of C03/C04/C05); hcobs::find_stuff_sequence is replaced by its contract (first FE FD or None) inside the codec jobs; the contract is decided for the real function by Kani job fss::fss_first_occurrence (all strings <= 40 bytes) and by Engine X job find_stuff_sequence_contract (its own MIR: all strings <= 10/13 bytes, windowed strings up to 300 bytes)",
           "every mismatch query is asked to z3 4.8.12 and cvc5 1.0 and both must agree; a coverage query (the enumerated path conditions are exhaustive) accompanies every mismatch query"]
X_ASSUME = ["slices handed to the codec are modelled as value lists: aliasing between input pieces is not modelled (the codec never writes through its inputs)",
            "unwinding edges are not followed: a panic on any feasible path is itself reported as a violation"]
X_OUTSIDE = ["inputs longer than the stated lengths other than the windowed boundary inputs; more than three pieces per stream",
             "the concrete OwningIovec behind the event log (slice merging, arena copies, consumers) - see C03/C04/C05; Encoder::read_n / encode_read / decode_read wrappers (C17 decides ByteArena::read_n)"]

p07 = Prop("C07", "HCOBS wire format: Encoder == canonical encoding, Decoder accepts exactly the format",
           quick=[codecx.EncoderVsReference("quick"), codecx.DecoderVsReference("quick"), codecx.ApiProduction("quick"), codecx.FindStuffSequence("quick")] + C07_JOBS,
           thorough=[codecx.EncoderVsReference("thorough"), codecx.DecoderVsReference("thorough"), codecx.ApiProduction("thorough"), codecx.FindStuffSequence("thorough")] + C07_JOBS,
           bounds_quick="Engine X: EncoderState == reference for every byte string of length <= 7, every 2-piece cut (3 pieces for L 4-5), copy/borrow inputs, limits (1,1),(1,2),(2,3),(3,5); DecoderState == reference for every byte string <= 6 at (2,3),(1,2) and production limits; public Encoder/Decoder at production limits for every string <= 4 and windowed inputs crossing the 252 and 252+64008 boundaries. Engine K: production constants, header arithmetic for all 64009 chunk sizes, find_stuff_sequence for all strings <= 40 bytes",
           bounds_thorough="Engine X lengths <= 9 (encoder, + limits (2,2),(4,7), all four method pairs up to 8, 3 pieces for L 4-7) and <= 7 (decoder, + (1,1),(3,5), all method pairs); more boundary windows and cuts; Engine K as quick",
           outside=X_OUTSIDE, assumptions=X_ASSUME + ["hook H4 (hcobs::verif_hooks::encode_header) exposes the private header kernel to Kani; hook H2 shrinks arena chunks to 8 bytes there; the limit hook H1 is OFF in every build used by this check (Engine X passes tiny limits as the Parameters argument of the internal state machines and reads PROD_PARAMS from the MIR for the public API)"],
           trusted=X_TRUST)
p07.technique = "symbolic execution of the compiler's MIR for the encoder/decoder state machines with symbolic input bytes, differential SMT queries (z3 + cvc5) against a reference codec; bounded model checking (Kani/CBMC) of the header kernel, constants and find_stuff_sequence"
reg(p07)

C02_K = [C07_JOBS[3], C07_JOBS[1], C07_JOBS[0]]
p02 = Prop("C02", "encoder output stuff-free, split-independent, bounded",
           quick=[codecx.EncoderVsReference("quick"), codecx.ApiProduction("quick", pid="C02", name="c02::public_api_production_limits[mirx]"), smtengine.C02LengthLemma(), codecx.FindStuffSequence("quick", pid="C02")] + C02_K,
           thorough=[codecx.EncoderVsReference("thorough"), codecx.ApiProduction("thorough", pid="C02", name="c02::public_api_production_limits[mirx]"), smtengine.C02LengthLemma(), codecx.FindStuffSequence("thorough", pid="C02")] + C02_K,
           bounds_quick="every encoder output path of Engine X (lengths <= 7, all cuts, copy/borrow, four tiny limit pairs; public API at production limits incl. boundary windows): no adjacent FE FD in the output, output identical to the single reference encoding whatever the cut and input method (split independence), length <= len + 1 + 2*ceil(len/64008) at production limits; SMT lemma: the canonical encoding's length bound for ALL lengths < 2^40; Kani: find_stuff_sequence, header digits < 0xFD, production constants",
           bounds_thorough="lengths <= 9, all method pairs, six tiny limit pairs, more windows",
           outside=X_OUTSIDE + ["the size bound for long inputs rests on: implementation == canonical encoding (decided up to the stated lengths and at the boundary windows) + the arithmetic lemma on the canonical encoding (all lengths)"],
           assumptions=X_ASSUME, trusted=X_TRUST)
p02.technique = p07.technique
reg(p02)

p01 = Prop("C01", "decode(encode(x)) == x",
           quick=[codecx.RoundTrip("quick"), codecx.EncoderVsReference("quick"), codecx.DecoderVsReference("quick"),
                  iov_job("k8q_consume_clamped_to_stable_prefix"), codecx.AdvanceSlices("quick", pid="C01")],
           thorough=[codecx.RoundTrip("thorough"), codecx.EncoderVsReference("thorough"), codecx.DecoderVsReference("thorough"), codecx.ApiProduction("thorough", pid="C01", name="c01::public_api_production_limits[mirx]"),
                     iov_job("k8q_consume_clamped_to_stable_prefix", 3000, 24), codecx.AdvanceSlices("thorough", pid="C01")],
           bounds_quick="drain side: ConsumingIovec::consume never crosses a pending placeholder when over-asked (Kani skeleton k8q), advance_slices drops min(count, stable bytes) (Engine X kernel over a stubbed stable prefix); codec side: the DecoderState MIR executed on every symbolic output of the EncoderState MIR: every byte string of length <= 5, encoder input cut at 0 / middle / end (copy+borrow), encoded stream cut at 0 / middle / end (borrow+copy), limits (2,3),(1,2) and production; plus both halves against the reference codec (C07 jobs)",
           bounds_thorough="length <= 7, every encoder cut, every decoder cut, five limit pairs; public API at the production chunk boundaries against the reference",
           outside=X_OUTSIDE + ["the encoded stream is handed to the decoder as a byte string; the drain path is decided separately and only in part: consume() on one skeleton, advance_slices as an arithmetic kernel; Read::read and the real stable_prefix next to several placeholders are not decided"],
           assumptions=X_ASSUME + IOV_ASSUME, trusted=X_TRUST)
p01.technique = "symbolic execution of the MIR of both state machines composed (decoder run on the encoder's symbolic output), SMT queries (z3 + cvc5); bounded model checking (Kani/CBMC) of the consume() skeleton"
reg(p01)

C06_Q = [c08_job(4, 0, sched=1, timeout=800), c08_job(6, 4, sched=0, timeout=800), c17_job(3, "fresh"), c17_job(1, "fresh")]
C06_T = [c08_job(4, 0), c08_job(4, 2), c08_job(5, 3), c08_job(6, 4), c17_job(4, "fresh"), c17_job(3, "fresh"), c17_job(1, "fresh"), c17_job(0, "fresh"), c17_job(3, "nearly_full")]
p06 = Prop("C06", "StreamReader returns exactly the valid delimited records",
           quick=[codecx.StreamRecords("quick")] + C06_Q,
           thorough=[codecx.StreamRecords("thorough")] + C06_T,
           bounds_quick="assume/guarantee in three layers. (1) Engine X: StreamReader::next_record_bytes + chunk_judge (MIR), called until None, with StreamChunker::pump replaced by its tiling contract and EVERY admissible chunking explored: every byte stream of length <= 5 (no limits), length 4 with max_record_size 0/1/2 and every limit_offset, and 9-11 byte streams with fixed delimiters and symbolic payload/garbage; result == reference record splitter (records, exact ranges, order, end of stream). (2) Engine K: the real pump satisfies that contract for one step from EVERY chunker state (two C08 jobs: block size 0 with a short read / interrupted call, block size 4). (3) Engine K: ByteArena::read_n under every reader script of <= 4 actions (two C17 jobs)",
           bounds_thorough="streams <= 6 bytes (7 bytes: the mismatch query did not come back within the 300 s solver cap), limits on streams of 4-6 bytes, four C08 jobs (block sizes 0,2,3,4 with 2 symbolic reader events), five C17 jobs",
           outside=["hard I/O errors from the reader (the contract stub never fails; the property quantifies over short reads and interrupted calls, which the C08/C17 layers cover)",
                    "streams longer than the stated lengths; records longer than a few bytes (the decoder at production limits on long chunks is C07's windowed jobs)",
                    "block sizes above 6 (C08's bound); the real OwningIovec behind the record (take/clear/total_size are modelled on the event log; C03/C20 decide parts of the real ones)",
                    "last_sentinel_offset is not compared"],
           assumptions=X_ASSUME + ["the three layers compose: layer 1 assumes exactly the chunk contract that layer 2 proves per step (tiling, Sentinel iff FE FD at the cursor, Data chunks non-empty, stuff-free and never separating an FE from its FD), for every chunk length the contract allows - a superset of what any read schedule / block size can produce"],
           trusted=X_TRUST)
p06.technique = "symbolic execution of the MIR of StreamReader::next_record_bytes over a contract stub of StreamChunker::pump, differential SMT queries (z3 + cvc5) against a reference record splitter; bounded model checking (Kani/CBMC) of the real pump step and of ByteArena::read_n"
reg(p06)

p09 = Prop("C09", "incremental drain: bounded lag for the Encoder, none for the Decoder",
           quick=[codecx.EncoderVsReference("quick"), codecx.DecoderVsReference("quick"), codecx.ApiProduction("quick", pid="C09", name="c09::public_api_production_limits[mirx]"),
                  iov_job("k8q_consume_clamped_to_stable_prefix"), codecx.AdvanceSlices("quick", pid="C09")],
           thorough=[codecx.EncoderVsReference("thorough"), codecx.DecoderVsReference("thorough"), codecx.ApiProduction("thorough", pid="C09", name="c09::public_api_production_limits[mirx]"), codecx.AdvanceSlices("thorough", pid="C09"),
                     iov_job("k8q_consume_clamped_to_stable_prefix", 3000, 24), iov_job("k8_overasking_consumers_with_pending", 3000, 24)],
           bounds_quick="on every feasible encoder path of Engine X (lengths <= 7, all cuts; production limits with inputs longer than 252+64008): at most one placeholder pending at any time and at most max_chunk+2 bytes appended behind it (so everything older is consumable), every placeholder is backfilled by finish; decoder paths register no placeholder at all; Kani: ConsumingIovec::consume never crosses the earliest pending placeholder even when over-asked",
           bounds_thorough="lengths <= 9; two consume skeletons",
           outside=X_OUTSIDE + ["the drained bytes themselves: that what a consumer takes out of OwningIovec is a prefix of the final flatten() is C03/C04. ConsumingIovec::consume is decided there; for ConsumingIovec::advance_slices only its arithmetic is decided (Engine X on its MIR, with OwningIovec::stable_prefix and GlobalDeque::consume_by_bytes stubbed: the byte count dropped is min(count, stable bytes) for every 64-bit count) - stable_prefix's own slice selection next to a pending placeholder, consume_by_bytes and Read::read did NOT finish in Kani; a change to advance_slices that reads other state (e.g. the placeholder table) makes this job INCONCLUSIVE (exit 2), not a detection",
                                "arena-chunk granularity of the lag (one slice may stay pinned behind a placeholder that shares it)"],
           assumptions=X_ASSUME + IOV_ASSUME, trusted=X_TRUST)
p09.technique = p07.technique
reg(p09)
