"""Property registry: which jobs decide which property at which tier."""
import os
import re

import kanirun
from kanirun import Job

VERIF = kanirun.VERIF
COMMON_TRUST = [
    "rustc (MIR) and Kani 0.68 MIR->GOTO translation incl. its std/alloc models",
    "CBMC 6.11 symbolic execution + CaDiCaL SAT",
    "harness-side oracles (reference models written from the property text)",
]
COMMON_ASSUME = [
    "allocation never fails (Kani model)",
    "x86-64 Linux target (usize = 64 bit)",
    "unwinding assertions ON: an insufficient loop bound is reported as inconclusive, never as a pass",
    "debug profile (debug assertions and overflow checks ON), which is what Kani models",
]


def summarise_kani(r):
    """Normalises a kanirun result into the fields evidence.py aggregates."""
    job, res = r["job"], r["res"]
    checks = res.get("checks", [])
    reach = [c for c in checks if c["status"] != "UNREACHABLE"]
    ok = [c for c in checks if c["status"] in ("SUCCESS", "SATISFIED")]
    funcs = sorted({c["fn"] for c in checks if c["fn"] and kanirun.is_repo_fn(c) and c["status"] != "UNREACHABLE"})
    rt = res.get("runtime", {})
    covers = {c["desc"]: c["status"] for c in checks if ".cover." in c["id"]}
    out = {
        "name": job.name, "engine": "kani/cbmc", "status": r["status"], "reason": r["reason"], "log": r["log"],
        "wall": r["wall"], "checks_total": len(checks), "checks_nontrivial": len({(c["id"]) for c in reach}),
        "checks_ok": len(ok), "queries": res.get("sat_calls", 0),
        "solver_s": rt.get("decision procedure", 0.0) + rt.get("Symex", 0.0) + rt.get("Convert SSA", 0.0),
        "functions": funcs, "bounds": job.bounds, "covers": covers,
        "formula": {"vccs": res.get("vccs"), "sat_vars_clauses": res.get("sat_size")},
        "failed": r["failed"], "job": job, "samples": [],
    }
    if r["failed"]:
        out["signature"] = "harness=%s check=%s" % (job.harness, r["failed"][0]["desc"])
    if r.get("witness_sample"):
        out["samples"].append({"harness": job.name, "kind": "concrete input reaching the end of the harness (solver model, Kani concrete playback)",
                               "kani_any_values_in_order": r["witness_sample"]})
    sat = [d for d, s in covers.items() if s == "SATISFIED"]
    if sat:
        out["samples"].append({"harness": job.name, "bounds": job.bounds,
                               "reachability_witnesses_satisfied": sat[:6],
                               "example_obligations": [c["desc"] + " @ " + c["loc"] for c in reach if kanirun.is_repo_fn(c)][:3]})
    return out


class Prop:
    def __init__(self, pid, title, quick, thorough, bounds_quick, bounds_thorough, outside, assumptions=(), trusted=()):
        self.pid = pid
        self.title = title
        self._quick = quick
        self._thorough = thorough
        self._bq = bounds_quick
        self._bt = bounds_thorough
        self.outside = outside
        self.assumptions = COMMON_ASSUME + list(assumptions)
        self.trusted = COMMON_TRUST + list(trusted)

    def bounds(self, tier):
        return self._bq if tier == "quick" else self._bt

    def jobs(self, tier, seed):
        j = self._quick if tier == "quick" else self._thorough
        return j(seed) if callable(j) else list(j)

    def run(self, tier, seed, only=None):
        jobs = self.jobs(tier, seed)
        if only:
            jobs = [j for j in jobs if only in getattr(j, "name", str(j))]
        logdir = os.path.join(kanirun.WORK, "logs" + kanirun.ALT, self.pid + "-" + tier)
        kjobs = [j for j in jobs if isinstance(j, Job)]
        other = [j for j in jobs if not isinstance(j, Job)]
        results = []
        if kjobs:
            raw = kanirun.run_jobs(kjobs, logdir)
            summ = [summarise_kani(r) for r in raw]
            # Replay before reporting: cheapest violating job first, stop at the first one that
            # reproduces natively (at most 3 attempts); the others are listed as also failing.
            viol = sorted([x for x in summ if x["status"] == kanirun.VIOLATION], key=lambda x: x["wall"])
            reproduced, attempts = False, 0
            for x in viol:
                x["detail"] = "failed checks: %s" % "; ".join("%s @ %s" % (c["desc"], c["loc"]) for c in x["failed"][:4])
                if reproduced or attempts >= 3:
                    x["reproduced"] = None
                    x["artifact"] = ""
                    x["detail"] = "not replayed (another job of this run was); " + x["detail"]
                    continue
                attempts += 1
                root = os.path.join(VERIF, "replays" + kanirun.ALT, self.pid)
                try:
                    ok, art, detail = kanirun.replay(x["job"], root)
                except Exception as e:  # noqa
                    ok, art, detail = None, "", "replay failed to run: %r" % (e,)
                x["reproduced"] = bool(ok)
                x["artifact"] = art
                x["detail"] = detail + "; " + x["detail"]
                reproduced = reproduced or bool(ok)
            results.extend(summ)
        for j in other:
            results.extend(j.run(logdir))
        return {"results": results}


def replay_other(pid, art):
    if pid in ("C13", "C18"):
        import wmm
        return wmm.replay(pid, art)
    import smtengine
    return smtengine.replay(pid, art)


PROPS = {}


def reg(p):
    PROPS[p.pid] = p


# ---------------------------------------------------------------------------
# C15 — SlidingDeque

C15_COVERS_INLINE = {"pop_back with exactly half consumed", "pop_front triggers a slide"}

reg(Prop(
    "C15", "SlidingDeque vs reference deque",
    quick=[
        Job("deque", "c15::c15_step_vec", timeout=600, mem_gb=6, bounds="Vec<u8>, backing length <= 6, one symbolic op from an arbitrary valid representation"),
        Job("deque", "c15::c15_step_vec_witness", kind="witness", timeout=600, mem_gb=6, bounds="vacuity twin of c15_step_vec"),
        Job("deque", "c15::c15_step_small_inline", timeout=900, mem_gb=6, covers=C15_COVERS_INLINE,
            bounds="SmallVec<[u8;2]> starting inline (length <= 2), incl. inline->heap spill on push"),
    ],
    thorough=[
        Job("deque", "c15::c15_step_vec", timeout=900, mem_gb=6, bounds="Vec<u8>, backing length <= 6"),
        Job("deque", "c15::c15_step_vec_witness", kind="witness", timeout=900, mem_gb=6, bounds="vacuity twin"),
        Job("deque", "c15::c15_step_vec8", timeout=1800, mem_gb=8, bounds="Vec<u8>, backing length <= 8"),
        Job("deque", "c15::c15_step_small_inline", timeout=1200, mem_gb=6, covers=C15_COVERS_INLINE,
            bounds="SmallVec<[u8;2]> starting inline (length <= 2)"),
        Job("deque", "c15::c15_step_small3", timeout=2400, mem_gb=10, bounds="SmallVec<[u8;2]> spilled, backing length <= 3"),
        Job("deque", "c15::c15_step_small", timeout=2400, mem_gb=10, bounds="SmallVec<[u8;2]> spilled, backing length <= 4"),
    ],
    bounds_quick="one inductive step (any of 9 operations, symbolic arguments incl. advance(usize::MAX)) from every valid representation with backing length <= 6 (Vec<u8>) / <= 2 inline (SmallVec<[u8;2]>); element type u8",
    bounds_thorough="as quick plus Vec<u8> backing length <= 8 and spilled SmallVec<[u8;2]> backing length <= 4",
    outside=["element types other than u8", "backing lengths above the bound (the step is inductive, so any history whose backing length stays within the bound is covered)",
             "the half-space bound is observed through the crate's own check_rep debug assertion (backing length is not observable through the API)"],
))


# ---------------------------------------------------------------------------
# C16 — SortedDeque

C16_OPS = ["push_back_or_panic", "find", "remove", "pop_first", "pop_last", "clear", "remove+find+remove"]
C16_COVER_DESCS = {
    0: {"push a greater live item", "push an erased item is a no-op"},
    1: {"find a missing key inside the range"},
    2: {"remove last exposes tombstones at the back", "remove first exposes tombstones at the front", "middle removal marks a tombstone"},
    3: set(), 4: set(), 5: set(), 6: set(),
}
C16_ALL_COVERS = set().union(*C16_COVER_DESCS.values()) | {"pop_last after two pop_first (F2 shape)"}


def c16_job(conv, op, pops=0, timeout=900, witness=False):
    name = "c16::c16_%s_%sop%d%s" % (conv, ("p%d_" % pops) if pops else "", op, "_witness" if witness else "")
    allowed = set(C16_ALL_COVERS) - C16_COVER_DESCS[op]
    if pops == 2 and op == 4:
        allowed.discard("pop_last after two pop_first (F2 shape)")
    return Job("deque", name, timeout=timeout, mem_gb=8, covers=allowed, kind="witness" if witness else "proof",
               bounds="%s convention, <=5 physical items with symbolic keys/tombstones, %d pop_first then op=%s"
               % (conv, pops, C16_OPS[op]))


def c16_quick(seed):
    jobs = [c16_job("pairs", op) for op in range(7)]
    jobs.append(c16_job("pairs", 2, witness=True))
    # whole-item convention: the seed picks which three operations the quick tier decides
    ops = [(seed + i) % 7 for i in (0, 2, 4)]
    jobs += [c16_job("whole", op) for op in sorted(set(ops + [2]))]
    jobs.append(Job("deque", "c16::c16_push_not_greater_panics_pairs", kind="must_panic", note="assertion failed: self.marker.cmp", timeout=300, mem_gb=4,
                    bounds="pairs: every live item not greater than the last must panic"))
    jobs.append(Job("deque", "c16::c16_push_not_greater_panics_whole", kind="must_panic", note="assertion failed: self.marker.cmp", timeout=300, mem_gb=4,
                    bounds="whole-item: every live item not greater than the last must panic"))
    return jobs


def c16_thorough(seed):
    jobs = []
    for conv in ("pairs", "whole"):
        for op in range(7):
            jobs.append(c16_job(conv, op, timeout=1800))
        jobs.append(c16_job(conv, 2, witness=True, timeout=1800))
        for pops in (1, 2):
            for op in range(7):
                jobs.append(c16_job(conv, op, pops=pops, timeout=2400))
        jobs.append(Job("deque", "c16::c16_push_not_greater_panics_%s" % conv, kind="must_panic", note="assertion failed: self.marker.cmp",
                        timeout=300, mem_gb=4, bounds="%s: every live item not greater than the last must panic" % conv))
    return jobs


reg(Prop(
    "C16", "SortedDeque vs reference ordered map",
    quick=c16_quick, thorough=c16_thorough,
    bounds_quick="one step from every valid physical layout of <= 5 items (symbolic strictly increasing u8 keys, symbolic tombstones, live ends): each of 7 operation kinds as its own job (operation KIND enumerated, all data symbolic) for the (key, Option<value>) convention, 4 kinds (seed-rotated) for the whole-item convention, plus pop_last after two pop_first; must-panic harnesses for both conventions",
    bounds_thorough="all 7 operation kinds x {0,1,2} preceding pop_first calls x both conventions",
    outside=["more than 5 physical items", "comparator objects other than ()", "key types other than u8",
             "operation kind is enumerated per job (a symbolic kind ran out of memory); the layout, keys, values, tombstones and arguments are symbolic"],
))


# ---------------------------------------------------------------------------
# C12 — MessageView

reg(Prop(
    "C12", "MessageView total on untrusted bytes",
    quick=[
        Job("tlv", "c12::c12_view24", timeout=900, mem_gb=8, bounds="arbitrary byte string of symbolic length <= 24 (pair count word: full 32 bits; up to 3 pairs accepted)"),
        Job("tlv", "c12::c12_view24_witness", kind="witness", timeout=900, mem_gb=8, bounds="vacuity twin"),
    ],
    thorough=[
        Job("tlv", "c12::c12_view24", timeout=900, mem_gb=8, bounds="arbitrary byte string, length <= 24"),
        Job("tlv", "c12::c12_view24_witness", kind="witness", timeout=900, mem_gb=8, bounds="vacuity twin"),
        Job("tlv", "c12::c12_view40", timeout=3000, mem_gb=16, bounds="arbitrary byte string, length <= 40 (up to 5 pairs accepted)"),
    ],
    bounds_quick="every byte string of length 0..24, symbolic length, symbolic index and symbolic lookup tag",
    bounds_thorough="every byte string of length 0..40",
    outside=["byte strings longer than the bound (messages with more than 3 resp. 5 pairs)", "Cow::Owned storage (same code path; only Borrowed is driven)"],
))


# ---------------------------------------------------------------------------
# C11 — Rough TLV encode / round trip / rejection set

def c11_layout(n, ctor, timeout=1500, witness=False):
    cname = {0: "new", 1: "slice", 2: "sorted"}[ctor]
    allowed = set()
    if ctor == 2:
        allowed.add("unsorted input")
    return Job("tlv", "c11::c11_layout_n%d_%s%s" % (n, cname, "_witness" if witness else ""), timeout=timeout, mem_gb=10,
               covers=allowed, kind="witness" if witness else "proof",
               bounds="N=%d pairs, constructor %s, symbolic u32 tags (ties included), value lengths 0..2, symbolic bytes; array sink; MessageView round trip" % (n, cname))


def c11_reject(n, ctor):
    cname = {0: "new", 1: "slice", 2: "sorted"}[ctor]
    allowed = {"sum overflows usize"} if n < 2 else set()
    return Job("tlv", "c11::c11_reject_n%d_%s" % (n, cname), timeout=600, mem_gb=4, covers=allowed,
               bounds="N=%d pairs with value lengths ranging over ALL of usize (length-only value type), constructor %s" % (n, cname))


reg(Prop(
    "C11", "Rough TLV encode, round trip, rejection set",
    quick=[c11_layout(0, 0, 600), c11_layout(1, 0, 900), c11_layout(2, 0), c11_layout(2, 1), c11_layout(2, 2),
           c11_layout(2, 1, witness=True),
           c11_reject(1, 0), c11_reject(2, 0), c11_reject(3, 0), c11_reject(3, 1), c11_reject(2, 2), c11_reject(3, 2)],
    thorough=[c11_layout(0, 0, 600), c11_layout(1, 0, 900), c11_layout(2, 0), c11_layout(2, 1), c11_layout(2, 2),
              c11_layout(2, 1, witness=True), c11_layout(3, 0, 2400), c11_layout(3, 1, 2400), c11_layout(3, 2, 2400),
              c11_reject(1, 0), c11_reject(2, 0), c11_reject(3, 0), c11_reject(3, 1), c11_reject(2, 2), c11_reject(3, 2)],
    bounds_quick="layout/round trip: N in {0,1,2} pairs (N enumerated per job), arbitrary u32 tags, value lengths 0..2, all three constructors; rejection set: N <= 3 with value lengths over all of usize",
    bounds_thorough="as quick with N = 3 added for all three constructors",
    outside=["N > 3 pairs; pair counts above i32::MAX (needs a 2^31-element slice)", "value lengths > 2 in the layout harness (lengths are unbounded in the rejection harness)",
             "sinks other than the harness array sink in this tier (OwningIovec / hcobs::Encoder sinks are exercised by C03/C01 harness families)",
             "nested messages and Cow values (thorough extensions, when present in the job list)"],
))


# ---------------------------------------------------------------------------
# C17 — ByteArena::read_n under I/O faults

ARENA8 = dict(cfgs=("woodpile_verif", "woodpile_verif_arena"), env={"WOODPILE_VERIF_ARENA_CHUNK": "8,0"})
C17_COVERS = ["all attempts interrupted", "Interrupted then EOF: empty success", "hard error after data is a success",
              "filled through short reads", "attempt budget exhausted with a short result"]


def c17_job(count, state, witness=False, quick=False):
    name = "c17::c17_%sread_n_c%d_%s%s" % ("q_" if quick else "", count, state, "_witness" if witness else "")
    if count == 0:
        allowed = set(C17_COVERS)
    elif count < 3:
        allowed = {"filled through short reads"}
    else:
        allowed = set()
    if count == 1:
        allowed.add("attempt budget exhausted with a short result")
        allowed.add("hard error after data is a success")
    n = 3 if quick else 4
    return Job("arena", name, unwind_fns={r"ByteArena::read_n_impl": n + 1}, timeout=900, mem_gb=8, covers=allowed,
               kind="witness" if witness else "proof",
               bounds="count=%d, arena %s, symbolic reader script of <=%d actions over {deliver 1..3, Interrupted, EOF, hard error}, symbolic max_attempts 1..%d, 8-byte arena chunks" % (count, state, n, n),
               **ARENA8)


reg(Prop(
    "C17", "read_n under I/O faults",
    quick=[c17_job(4, "fresh"), c17_job(3, "fresh"), c17_job(1, "fresh"), c17_job(0, "fresh"),
           c17_job(4, "nearly_full"), c17_job(3, "nearly_full"), c17_job(2, "full_chunk"),
           c17_job(3, "fresh", witness=True, quick=True)],
    thorough=[c17_job(c, "fresh") for c in range(5)] + [c17_job(c, "nearly_full") for c in (0, 3, 4)]
    + [c17_job(c, "full_chunk") for c in (2, 4)] + [c17_job(3, "fresh", witness=True, quick=True)],
    bounds_quick="ByteArena::read_n: count in {0,1,3,4} (concrete per job), every reader script of <= 4 actions, max_attempts 1..4, arena pre-state in {no cache, 3 bytes left in an 8-byte chunk, chunk exactly full}",
    bounds_thorough="count 0..4, same scripts, all three arena pre-states",
    outside=["scripts longer than 4 actions, counts above 4, production chunk sizes (4 KiB..1 MiB; hook H2 shrinks them to 8 bytes)",
             "count is concrete per job (a symbolic count makes the chunk allocation size symbolic, which exhausted 12 GB)",
             "error payloads: errors are io::Error::from(ErrorKind) (no heap payload)"],
    assumptions=["hook H2: arena chunk size 8 bytes (constant sequence) through --cfg woodpile_verif_arena"],
))


# ---------------------------------------------------------------------------
# C14 — VouchedTime window (Engine M: MIR -> SMT; Engine K for the public constructor)

import smtengine  # noqa: E402


def c14_k(name, timeout=1800, witness=False, allowed=()):
    return Job("vouched", "c14::" + name, timeout=timeout, mem_gb=10, kind="witness" if witness else "proof", covers=set(allowed), stubbing=True,
               bounds="VouchedTime::new through the public API: concrete calendar minute, symbolic second/nanosecond, symbolic u64 base time, voucher produced for a symbolic (possibly different) value")


C14_BEFORE = {"accepted at the forward edge", "accepted at the backward edge", "rejected one past the forward edge"}
C14_LAST = set()

p14 = Prop(
    "C14", "VouchedTime window",
    quick=[smtengine.C14Kernel(), smtengine.C14Compose(), c14_k("c14_new_epoch_minute")],
    thorough=[smtengine.C14Kernel(), smtengine.C14Compose(), c14_k("c14_new_epoch_minute"), c14_k("c14_new_before_epoch_minute", allowed=C14_BEFORE),
              c14_k("c14_new_2024_minute"), c14_k("c14_new_2024_minute_witness", witness=True), c14_k("c14_new_last_minute")],
    bounds_quick="window kernel: all 2^128 x 2^64 (local ms, base ms) inputs, no bound; composition with the voucher verdict and the ns->ms conversion: all representable local times at ns resolution; public constructor: the calendar minute 1970-01-01 00:00 with symbolic seconds/nanoseconds/base/voucher",
    bounds_thorough="as quick plus the calendar minutes 1969-12-31 23:59, 2024-04-13 17:00, 9999-12-31 23:59 through the public constructor",
    outside=["the `time` crate's calendar conversion outside the listed minutes (Engine M treats unix_timestamp_nanos as an arbitrary i128 in the calendar range)",
             "raffle's voucher arithmetic (arbitrary Bool in Engine M; executed for real in the Kani harnesses)",
             "VouchedTime::now (passes the clock value straight to `new`; not encoded)"],
    trusted=["MIR -> SMT-LIB translator lib/mir.py (validated on every run against the repository's 17 boundary vectors)", "z3 4.8.12 and cvc5 1.0 (must agree on every query)"],
)
p14.engine = "mir-smt + kani-cbmc"
p14.technique = "symbolic execution of rustc MIR (check_vouched_time, VouchedTime::check) into SMT-LIB bit-vector queries decided by z3 and cvc5 for all inputs, plus Kani/CBMC harnesses on the public constructor"
reg(p14)


# ---------------------------------------------------------------------------
# C08 — StreamChunker (one inductive pump step from an arbitrary chunker state, hook H5)

def c08_job(S, block, witness=False, timeout=1500):
    m = max(block, 2)
    return Job("stream", "c08::c08_step_s%d_b%d%s" % (S, block, "_witness" if witness else ""),
               unwind_fns={r"StreamChunker::pump": 3, r"ByteArena::read_n_impl": 6, r"find_stuff_sequence": m + 1},
               timeout=timeout, mem_gb=14, kind="witness" if witness else "proof", stubbing=True,
               bounds="io_block_size=%d; arbitrary chunker state (carry-over buffer of 0..%d arbitrary bytes, arbitrary offset <= 2^48), remaining stream so that buffer+rest <= %d bytes, reader schedule: 2 symbolic calls (short reads of 1..3 bytes, <=1 interrupted) then full reads; 8-byte arena chunks" % (block, m, S),
               **ARENA8)


reg(Prop(
    "C08", "StreamChunker tiles the stream",
    quick=[c08_job(4, 0), c08_job(4, 2), c08_job(5, 3), c08_job(6, 4), c08_job(5, 3, witness=True)],
    thorough=[c08_job(4, 0), c08_job(4, 1), c08_job(4, 2), c08_job(5, 3), c08_job(5, 3, witness=True), c08_job(6, 4),
              c08_job(6, 2, timeout=2400), c08_job(6, 3, timeout=2400), c08_job(8, 5, timeout=3000), c08_job(8, 6, timeout=3000)],
    bounds_quick="one pump step from EVERY chunker state satisfying the carry-over invariant, io_block_size in {0,2,3,4} (concrete per job), logical remaining stream (carry-over + unread) <= 4..6 arbitrary bytes; by induction this covers pump sequences of any length whose per-step window fits the bound",
    bounds_thorough="io_block_size in {0,1,2,3,4,5,6}, remaining stream <= 4..8 bytes",
    outside=["block sizes above 6 and the 512 KiB default (the block size is concrete per job: a symbolic size makes the arena allocation size symbolic)",
             "hard I/O errors (the property quantifies over short reads and interrupted calls)", "more than one interrupted call within one pump",
             "the induction itself (invariant => next state satisfies invariant) is proved per step by the solver; composing the steps is a pencil argument stated in kani/stream/src/c08.rs"],
    assumptions=["hook H5 (cfg woodpile_verif): StreamChunker::verif_from_parts / verif_buf / verif_offset construct and observe the chunker state", "hook H2: 8-byte arena chunks"],
))


# ---------------------------------------------------------------------------
# C13 / C18 — AtomicBaseTime under the Rust memory model (Engine W)

import wmm  # noqa: E402

W_TRUST = ["MIR -> event-structure extractor lib/wmm.py + lib/mir.py", "RC11-style axiomatisation (release/acquire/relaxed atomics without release sequences, coherence CoWW/CoRW/CoWR/CoRR, (sb U rf) acyclic, mutex = lock order + synchronises-with); exact happens-before by Floyd-Warshall",
           "z3 4.8.12 and cvc5 1.0 must agree on every query"]
W_ASSUME = ["std::sync::Mutex gives mutual exclusion and release/acquire synchronisation", "CheckingParameters::check is an uninterpreted predicate CHK with CHK(b, v) assumed for the initial pair and for every update's arguments (a bad voucher is a documented panic)",
            "no lock poisoning except on try_lock's explicitly handled Poisoned arm (explored structurally)", "64-bit sequence counter does not wrap"]
p13 = Prop("C13", "AtomicBaseTime snapshots never torn / never backwards",
           quick=[wmm.C13Job("quick")], thorough=[wmm.C13Job("thorough")],
           bounds_quick="all interleavings AND all reads-from/modification orders allowed by the orderings found in the MIR, for: writer{2 updates}||reader; 2 writers{1 update}||reader; writer{2 updates}||reader{2 snapshots}; thread{update,snapshot}||writer; 2 writers; reader loop unrolled (#sequence stores + 1) times; every thread may also be suspended forever after any event; symbolic 64-bit base times and vouchers",
           bounds_thorough="as quick plus writer{3 updates}||reader",
           outside=["more threads / operations than the listed scenarios", "sequence counter wrap-around at 2^64", "SC accesses and fences (the code uses none; the extractor would reject them)"],
           assumptions=W_ASSUME, trusted=W_TRUST)
p13.engine = "mir-wmm-smt"
p13.technique = "bounded weak-memory model checking: thread programs extracted from rustc MIR into guarded event trees, RC11-style axioms in SMT, z3 + cvc5"
reg(p13)
p18 = Prop("C18", "readers and try_update never wait",
           quick=[wmm.C18Job("quick")], thorough=[wmm.C18Job("thorough")],
           bounds_quick="snapshot's event tree with the loop unrolled 5 times contains only loads (no lock operation on any path); snapshot completes within (#sequence stores+1) iterations with writer{2 updates} suspended at ANY event (symbolic stop point, lock possibly held); try_update against a writer suspended holding the lock returns false, and no path of try_update (incl. the poisoned arm) reaches a blocking Mutex::lock; get_base_time_unlocked calls only snapshot",
           bounds_thorough="reader loop unrolled 7 times for the structural check",
           outside=["more than one suspended writer besides the listed scenarios", "fairness/liveness beyond 'completes within the unrolling bound'"],
           assumptions=W_ASSUME, trusted=W_TRUST)
p18.engine = "mir-wmm-smt"
p18.technique = p13.technique
reg(p18)
