"""Engine M: MIR -> SMT-LIB2 queries decided by z3 and cvc5 (both must agree).

C14: the VouchedTime window kernel and its composition with the voucher check
and the nanosecond->millisecond conversion, over ALL 128-bit local times and
all 64-bit base times (no bound on values).
"""
import json
import os
import re
import subprocess
import time

import mir
from mir import Exec, Module, Unsupported, Val, bvconst, conj, disj, mk_bool, mk_int

VERIF = os.path.dirname(os.path.dirname(os.path.abspath(__file__)))
WORK = os.path.join(VERIF, ".work")

# From the property text (NOT from the code): the window around the base time.
BACKWARD_MS = 59900
FORWARD_MS = 2990
# Representable local times: time::PrimitiveDateTime::{MIN,MAX} = years -9999..=9999.
MIN_LOCAL_NS = -377705116800 * 10**9
MAX_LOCAL_NS = 253402300799 * 10**9 + 999999999
MS = 1000000

VOUCH = "VOUCH-773ec2a0e62c20cd-f9e079b78e895091-fc1da7b1b77c57cb-594b9cce3091464a"


def result(name, status, **kw):
    r = {"name": name, "engine": "mir->smt (z3 4.8.12 + cvc5 1.0)", "status": status, "reason": "", "log": "", "wall": 0.0,
         "checks_total": 0, "checks_nontrivial": 0, "checks_ok": 0, "queries": 0, "solver_s": 0.0, "functions": [],
         "bounds": "", "covers": {}, "samples": [], "failed": []}
    r.update(kw)
    return r


class Queries:
    """Runs each query on both solvers; they must agree and neither may print `(error`."""

    def __init__(self, logdir, prefix, keep_unsat=True):
        self.logdir = logdir
        self.prefix = prefix
        self.keep_unsat = keep_unsat
        self.n = 0
        self.solver_s = 0.0
        self.log = []
        os.makedirs(logdir, exist_ok=True)

    def ask(self, tag, decls, asserts, timeout=300, get_model=True):
        script = "(set-logic ALL)\n(set-option :produce-models true)\n" + "\n".join(decls) + "\n"
        script += "\n".join("(assert %s)" % a for a in asserts) + "\n(check-sat)\n"
        if get_model:
            script += "(get-model)\n"
        path = os.path.join(self.logdir, "%s-%s.smt2" % (self.prefix, tag))
        open(path, "w").write(script)
        answers = {}
        model = ""
        for s in ("z3", "cvc5"):
            ans, out, dt = mir.solve(script if (get_model and True) else script, s, timeout)
            if ans == "error" and "unsat" in out.split("\n")[0:1]:
                ans = "unsat"  # (get-model) after unsat prints an error line: answer stands
            if ans == "error" and out.strip().startswith("unsat"):
                ans = "unsat"
            answers[s] = ans
            self.solver_s += dt
            self.n += 1
            if ans == "sat" and not model:
                model = out
            self.log.append({"query": tag, "solver": s, "answer": ans, "seconds": round(dt, 3)})
        vals = list(answers.values())
        if vals[0] != vals[1] or vals[0] not in ("sat", "unsat"):
            return "inconclusive", answers, model, path
        if vals[0] == "unsat" and not self.keep_unsat:
            # thousands of discharged queries per run: keep only the ones that matter (sat / inconclusive), and one sample
            if self.n > 2:
                try:
                    os.remove(path)
                except OSError:
                    pass
        return vals[0], answers, model, path


def spec_kernel(l_term, b_term, lw=128):
    """Accept set of the window check from the property text, in 136-bit signed arithmetic."""
    W = 136
    lwide = "((_ sign_extend %d) %s)" % (W - lw, l_term)
    bwide = "((_ zero_extend %d) %s)" % (W - 64, b_term)
    diff = "(bvsub %s %s)" % (lwide, bwide)
    return conj([
        "(bvsge %s %s)" % (lwide, bvconst(0, W)),
        "(bvsle %s %s)" % (lwide, bvconst((1 << 64) - 1, W)),
        "(bvsge %s %s)" % (diff, bvconst(-BACKWARD_MS, W)),
        "(bvsle %s %s)" % (diff, bvconst(FORWARD_MS, W)),
    ])


def classify_paths(paths):
    ok, err, panic, other = [], [], [], []
    for p in paths:
        c = conj(p.cond)
        if p.outcome == "panic":
            panic.append((c, p.note))
        elif p.outcome == "return" and p.value is not None and p.value.kind == "adt" and p.value.ctor == "Ok":
            ok.append(c)
        elif p.outcome == "return" and p.value is not None and p.value.kind == "adt" and p.value.ctor == "Err":
            d = p.value.payload.desc if p.value.payload is not None and p.value.payload.kind == "opaque" else "?"
            err.append((c, d))
        else:
            other.append(p)
    return ok, err, panic, other


def int_method(ex, callee, args, ctx):
    """Whitelisted integer methods of core::num (exact bit-vector semantics); None if not one of them."""
    m = re.match(r"^(?:core|std)::num::<impl (\w+)>::(\w+)$", callee)
    if not m or m.group(1) not in mir.INT_TYPES:
        return None
    w, sg = mir.INT_TYPES[m.group(1)]
    op = m.group(2)
    t = [a.term for a in args]
    if op in ("wrapping_add", "wrapping_sub", "wrapping_mul"):
        f = {"wrapping_add": "bvadd", "wrapping_sub": "bvsub", "wrapping_mul": "bvmul"}[op]
        return [([], mk_int("(%s %s %s)" % (f, t[0], t[1]), w, sg), ctx)]
    if op == "wrapping_neg":
        return [([], mk_int("(bvneg %s)" % t[0], w, sg), ctx)]
    if op in ("saturating_add", "saturating_sub") and not sg:
        f = "bvadd" if op == "saturating_add" else "bvsub"
        r = "(%s %s %s)" % (f, t[0], t[1])
        if op == "saturating_add":
            return [([], mk_int("(ite (bvult %s %s) %s %s)" % (r, t[0], bvconst((1 << w) - 1, w), r), w, sg), ctx)]
        return [([], mk_int("(ite (bvult %s %s) %s %s)" % (t[0], t[1], bvconst(0, w), r), w, sg), ctx)]
    if op == "abs_diff" and not sg:
        return [([], mk_int("(ite (bvult %s %s) (bvsub %s %s) (bvsub %s %s))" % (t[0], t[1], t[1], t[0], t[0], t[1]), w, sg), ctx)]
    if op in ("min", "max"):
        lt = "bvslt" if sg else "bvult"
        a, b = (t[0], t[1]) if op == "min" else (t[1], t[0])
        return [([], mk_int("(ite (%s %s %s) %s %s)" % (lt, t[0], t[1], a, b), w, sg), ctx)]
    if op == "div_euclid" and sg:
        qt = "(bvsdiv %s %s)" % (t[0], t[1])
        rt = "(bvsrem %s %s)" % (t[0], t[1])
        fl = "(ite (bvslt %s %s) (bvsub %s %s) %s)" % (rt, bvconst(0, w), qt, bvconst(1, w), qt)
        return [(["(bvsgt %s %s)" % (t[1], bvconst(0, w))], mk_int(fl, w, sg), ctx)]
    return None


def ord_method(ex, callee, args, ctx):
    """<iN as Ord>::clamp / min / max."""
    m = re.match(r"^<(\w+) as (?:std::cmp::)?Ord>::(clamp|min|max)$", callee)
    if not m or m.group(1) not in mir.INT_TYPES:
        return None
    w, sg = mir.INT_TYPES[m.group(1)]
    lt = "bvslt" if sg else "bvult"
    t = [a.term for a in args]
    if m.group(2) == "clamp":
        r = "(ite (%s %s %s) %s (ite (%s %s %s) %s %s))" % (lt, t[0], t[1], t[1], lt, t[2], t[0], t[2], t[0])
        return [([], mk_int(r, w, sg), ctx)]
    a, b = (t[0], t[1]) if m.group(2) == "min" else (t[1], t[0])
    return [([], mk_int("(ite (%s %s %s) %s %s)" % (lt, t[0], t[1], a, b), w, sg), ctx)]


def io_error_other(ex, callee, args, dst_ty, cond, ctx):
    desc = args[0].desc if args and args[0].kind == "opaque" else "?"
    return [([], Val("opaque", desc="io::Error::other(%s)" % desc), ctx)]


BOUNDARY_VECTORS = None


def boundary_vectors():
    """The repository's own boundary vectors (vouched_time::test_boundaries_miri) as (L, B, expect_ok)."""
    U = (1 << 64) - 1
    maxl = MAX_LOCAL_NS // MS
    minl = -((-MIN_LOCAL_NS) // MS)
    return [
        (maxl, U, False), (maxl, 0, False), (minl, 0, False), (minl, U, False),
        (0, 0, True), (0, BACKWARD_MS, True), (0, BACKWARD_MS + 1, False), (FORWARD_MS, 0, True), (1 + FORWARD_MS, 0, False),
        (-1, 0, False), (-1, U, False),
        (U, U, True), (U + 1, U, False), (U - BACKWARD_MS, U, True), (U - BACKWARD_MS - 1, U, False),
        (U, U - FORWARD_MS, True), (U, U - FORWARD_MS - 1, False),
    ]


class C14Kernel:
    name = "c14::window_kernel[mir->smt]"

    def run(self, logdir):
        t0 = time.time()
        try:
            text = mir.dump_mir("vouched_time", os.path.join(WORK, "mir"))
            mod = Module(text)
            out = self._run(mod, logdir)
        except Unsupported as e:
            out = [result(self.name, "INCONCLUSIVE", reason="MIR construct outside the translator: %s" % e)]
        for r in out:
            r["wall"] = r.get("wall") or (time.time() - t0)
        return out

    def _run(self, mod, logdir):
        results = []
        body = mod.find("::check_vouched_time")
        q = Queries(logdir, "c14-kernel")

        def handler(ex, callee, args, dst_ty, cond, ctx):
            if "io::Error::other" in callee:
                return io_error_other(ex, callee, args, dst_ty, cond, ctx)
            r = int_method(ex, callee, args, ctx) or ord_method(ex, callee, args, ctx)
            if r is not None:
                return r
            raise Unsupported("call in kernel: " + callee)

        ex = Exec(mod, handler)
        L = mk_int("L", 128, True)
        B = mk_int("B", 64, False)
        decls = ["(declare-const L (_ BitVec 128))", "(declare-const B (_ BitVec 64))"]
        paths = ex.run(body, [L, B])
        ok, err, panic, other = classify_paths(paths)
        if other:
            raise Unsupported("unclassified paths in check_vouched_time: %r" % (other[0].outcome,))
        impl_ok = disj(ok)
        spec = spec_kernel("L", "B")
        in_range = conj(["(bvsge L %s)" % bvconst(-((-MIN_LOCAL_NS) // MS), 128), "(bvsle L %s)" % bvconst(MAX_LOCAL_NS // MS, 128)])
        obligations = []
        failed = []
        samples = []

        # 0. translator validation on the repository's own boundary vectors
        bad_vec = []
        for (lv, bv, expect) in boundary_vectors():
            a, ans, _m, _p = q.ask("vec", decls + ex.decls, ["(= L %s)" % bvconst(lv, 128), "(= B %s)" % bvconst(bv, 64), impl_ok], get_model=False)
            got = {"sat": True, "unsat": False}.get(a)
            obligations.append(("vector L=%d B=%d expect_ok=%s" % (lv, bv, expect), got == expect))
            if got != expect:
                bad_vec.append((lv, bv, expect, a))
        # 1. no panic for any input
        a, ans, model, path = q.ask("nopanic", decls + ex.decls, [disj([c for c, _ in panic])])
        obligations.append(("never panics (all i128 x u64)", a == "unsat"))
        if a == "sat":
            failed.append({"desc": "check_vouched_time can panic", "model": mir.model_values(model), "smt2": path, "kind": "kernel"})
        elif a != "unsat":
            failed.append({"desc": "inconclusive: " + json.dumps(ans), "inconclusive": True})
        # 2. accept set == spec for every representable local time and every base time
        a, ans, model, path = q.ask("acceptset", decls + ex.decls, [in_range, "(xor %s %s)" % (impl_ok, spec)])
        obligations.append(("accept set equals the window of the property for all representable local times x all u64 base times", a == "unsat"))
        if a == "sat":
            failed.append({"desc": "accept set differs from [base-59900, base+2990] without wrap-around", "model": mir.model_values(model), "smt2": path, "kind": "kernel"})
        elif a != "unsat":
            failed.append({"desc": "inconclusive: " + json.dumps(ans), "inconclusive": True})
        # 2b. same over ALL of i128 (stronger than the property needs; informational unless it holds)
        a2, ans2, model2, _ = q.ask("acceptset-all-i128", decls + ex.decls, ["(xor %s %s)" % (impl_ok, spec)])
        obligations.append(("accept set equals the window for ALL i128 local times (informational)", a2 == "unsat"))
        # 3. reachability witnesses (vacuity guard): Ok and each rejection reason are reachable
        wit = {}
        a, _ans, model, _ = q.ask("wit-ok", decls + ex.decls, [impl_ok])
        wit["Ok reachable"] = a == "sat"
        if a == "sat":
            mv = mir.model_values(model)
            samples.append({"query": "Ok reachable", "L_ms": tosigned(mv.get("L"), 128), "B_ms": mv.get("B")})
        for c, d in err:
            a, _ans, model, _ = q.ask("wit-err", decls + ex.decls, [c])
            wit["Err reachable: " + d] = a == "sat"
            if a == "sat" and len(samples) < 6:
                mv = mir.model_values(model)
                samples.append({"query": "Err: " + d, "L_ms": tosigned(mv.get("L"), 128), "B_ms": mv.get("B")})
        status = "PASS"
        reason = ""
        if bad_vec:
            status, reason = "INCONCLUSIVE", "translator validation failed on the repository's boundary vectors: %r" % (bad_vec[:3],)
        elif any(f.get("inconclusive") for f in failed):
            status, reason = "INCONCLUSIVE", "solvers disagree / error / timeout"
        elif failed:
            status = "VIOLATION"
        elif not all(wit.values()):
            status, reason = "INCONCLUSIVE", "vacuity: unreachable outcome: %r" % ([k for k, v in wit.items() if not v],)
        r = result(self.name, status, reason=reason, checks_total=len(obligations) + len(wit),
                   checks_nontrivial=len(obligations) + len(wit), checks_ok=sum(1 for _, o in obligations if o) + sum(wit.values()),
                   queries=q.n, solver_s=q.solver_s, functions=["vouched_time::VouchedTime::check_vouched_time (MIR, %d blocks, %d paths)" % (len(body.blocks), len(paths))],
                   bounds="all 2^128 x 2^64 (local_ms, base_ms) pairs; property query restricted to representable local times (years -9999..9999), unrestricted query reported too",
                   covers={k: ("SATISFIED" if v else "UNSATISFIABLE") for k, v in wit.items()},
                   samples=samples, failed=[f for f in failed if not f.get("inconclusive")], log=os.path.join(logdir, "c14-kernel-*.smt2"),
                   obligations_detail=[{"obligation": o, "holds": h} for o, h in obligations], solver_log=q.log[-12:])
        if status == "VIOLATION":
            f = r["failed"][0]
            r["signature"] = "kernel " + f["desc"]
            ok_, art, detail = replay_kernel(f)
            r["reproduced"], r["artifact"], r["detail"] = ok_, art, detail + "; " + f["desc"]
        results.append(r)
        return results


def tosigned(v, w):
    if v is None:
        return None
    return v - (1 << w) if v >= (1 << (w - 1)) else v


class C14Compose:
    name = "c14::check_composition[mir->smt]"

    def run(self, logdir):
        t0 = time.time()
        try:
            text = mir.dump_mir("vouched_time", os.path.join(WORK, "mir"))
            mod = Module(text)
            out = self._run(mod, logdir)
        except Unsupported as e:
            out = [result(self.name, "INCONCLUSIVE", reason="MIR construct outside the translator: %s" % e)]
        for r in out:
            r["wall"] = r.get("wall") or (time.time() - t0)
        return out

    def _run(self, mod, logdir):
        body = mod.find("::check")
        kernel = mod.find("::check_vouched_time")
        q = Queries(logdir, "c14-compose")
        decls = ["(declare-const N (_ BitVec 128))", "(declare-const B (_ BitVec 64))", "(declare-const VK Bool)"]
        seen = {"div": None}

        def handler(ex, callee, args, dst_ty, cond, ctx):
            if "io::Error::other" in callee:
                return io_error_other(ex, callee, args, dst_ty, cond, ctx)
            if callee.endswith("CheckingParameters::check"):
                return [([], mk_bool("VK"), ctx)]
            if callee.endswith("::assume_utc"):
                return [([], Val("opaque", desc="utc(local)"), ctx)]
            if callee.endswith("::unix_timestamp_nanos"):
                return [([], mk_int("N", 128, True), ctx)]
            if not callee.endswith("::div_euclid"):
                r = int_method(ex, callee, args, ctx) or ord_method(ex, callee, args, ctx)
                if r is not None:
                    return r
            if callee.endswith("::div_euclid"):
                a, b = args
                seen["div"] = "div_euclid"
                qt = "(bvsdiv %s %s)" % (a.term, b.term)
                rt = "(bvsrem %s %s)" % (a.term, b.term)
                # Euclidean division for a positive divisor: floor
                fl = "(ite (bvslt %s %s) (bvsub %s %s) %s)" % (rt, bvconst(0, 128), qt, bvconst(1, 128), qt)
                return [(["(bvsgt %s %s)" % (b.term, bvconst(0, 128))], mk_int(fl, 128, True), ctx)]
            if callee.endswith("::check_vouched_time"):
                sub = Exec(mod, handler)
                sub.fresh = ex.fresh + 1000
                ps = sub.run(kernel, args)
                ex.decls.extend(sub.decls)
                outs = []
                for p in ps:
                    if p.outcome == "panic":
                        outs.append((p.cond, ("panic", p.note), ctx))
                    else:
                        outs.append((p.cond, p.value, ctx))
                return outs
            raise Unsupported("call in check: " + callee)

        ex = Exec(mod, handler)
        local = Val("opaque", desc="local_time")
        paths = ex.run(body, [local, mk_int("B", 64, False), Val("opaque", desc="voucher")])
        ok, err, panic, other = classify_paths(paths)
        if other:
            raise Unsupported("unclassified paths in check")
        impl_ok = disj(ok)
        # spec: voucher ok, not before the epoch, floor(ns / 1e6) inside the window
        n_ok = "(bvsge N %s)" % bvconst(0, 128)
        ms = "(bvsdiv N %s)" % bvconst(MS, 128)   # N >= 0 here, so truncation == floor
        spec = conj(["VK", n_ok, spec_kernel(ms, "B")])
        in_range = conj(["(bvsge N %s)" % bvconst(MIN_LOCAL_NS, 128), "(bvsle N %s)" % bvconst(MAX_LOCAL_NS, 128)])
        obligations, failed, samples = [], [], []
        a, ans, model, path = q.ask("nopanic", decls + ex.decls, [in_range, disj([c for c, _ in panic])], timeout=600)
        obligations.append(("VouchedTime::check never panics for representable local times", a == "unsat"))
        if a == "sat":
            failed.append({"desc": "VouchedTime::check can panic", "model": mir.model_values(model), "smt2": path, "kind": "compose"})
        elif a != "unsat":
            failed.append({"desc": "inconclusive: " + json.dumps(ans), "inconclusive": True})
        a, ans, model, path = q.ask("acceptset", decls + ex.decls, [in_range, "(xor %s %s)" % (impl_ok, spec)], timeout=600)
        obligations.append(("check accepts exactly: voucher ok AND local >= epoch AND floor(local_ns/1e6) - base in [-59900, 2990]", a == "unsat"))
        if a == "sat":
            failed.append({"desc": "VouchedTime::check accept set differs from the property", "model": mir.model_values(model), "smt2": path, "kind": "compose"})
        elif a != "unsat":
            failed.append({"desc": "inconclusive: " + json.dumps(ans), "inconclusive": True})
        a, _ans, model, _ = q.ask("wit-ok", decls + ex.decls, [in_range, impl_ok], timeout=600)
        wit = {"Ok reachable": a == "sat"}
        if a == "sat":
            mv = mir.model_values(model)
            samples.append({"query": "check Ok reachable", "local_ns": tosigned(mv.get("N"), 128), "B_ms": mv.get("B"), "voucher_ok": mv.get("VK")})
        a, _ans, _m, _ = q.ask("wit-badvoucher", decls + ex.decls, [in_range, "(not VK)", disj([c for c, _ in err])], timeout=600)
        wit["bad voucher rejected path reachable"] = a == "sat"
        status, reason = "PASS", ""
        if any(f.get("inconclusive") for f in failed):
            status, reason = "INCONCLUSIVE", "solvers disagree / error / timeout"
        elif failed:
            status = "VIOLATION"
        elif not all(wit.values()):
            status, reason = "INCONCLUSIVE", "vacuity: %r" % ([k for k, v in wit.items() if not v],)
        r = result(self.name, status, reason=reason, checks_total=len(obligations) + len(wit), checks_nontrivial=len(obligations) + len(wit),
                   checks_ok=sum(1 for _, o in obligations if o) + sum(wit.values()), queries=q.n, solver_s=q.solver_s,
                   functions=["vouched_time::VouchedTime::check (MIR) inlining check_vouched_time; stubs: CheckingParameters::check = arbitrary Bool, unix_timestamp_nanos = arbitrary i128 in the calendar range"],
                   bounds="all representable local times at nanosecond resolution x all u64 base times x voucher verdict {true,false}",
                   covers={k: ("SATISFIED" if v else "UNSATISFIABLE") for k, v in wit.items()}, samples=samples,
                   failed=[f for f in failed if not f.get("inconclusive")], obligations_detail=[{"obligation": o, "holds": h} for o, h in obligations],
                   solver_log=q.log[-8:], division=seen["div"] or "Div (truncating)")
        if status == "VIOLATION":
            f = r["failed"][0]
            r["signature"] = "compose " + f["desc"]
            ok_, art, detail = replay_compose(f)
            r["reproduced"], r["artifact"], r["detail"] = ok_, art, detail + "; " + f["desc"]
        return [r]


# ---------------------------------------------------------------------------
# native replay through the public API

def _driver_dir():
    import kanirun
    base = os.path.join(VERIF, "replay_drivers", "vouched")
    if not kanirun.ALT:
        return base
    import shutil
    d = os.path.join(WORK, "drivers" + kanirun.ALT, "vouched")
    if os.path.exists(d):
        shutil.rmtree(d)
    shutil.copytree(base, d, ignore=shutil.ignore_patterns("target"))
    t = open(os.path.join(d, "Cargo.toml")).read().replace('"/repo/', '"%s/' % mir.REPO)
    open(os.path.join(d, "Cargo.toml"), "w").write(t)
    return d


DRIVER = None


def run_driver(local_ns, base):
    env = dict(os.environ)
    env["CARGO_NET_OFFLINE"] = "true"
    import kanirun
    global DRIVER
    if DRIVER is None:
        DRIVER = _driver_dir()
    env["CARGO_TARGET_DIR"] = os.path.join(WORK, "target", "driver-vouched" + kanirun.ALT)
    env.pop("RUSTFLAGS", None)
    lock = os.path.join(mir.REPO, "Cargo.lock")
    if os.path.exists(lock):
        import shutil
        shutil.copyfile(lock, os.path.join(DRIVER, "Cargo.lock"))
    p = subprocess.run(["cargo", "run", "--offline", "-q", "--", str(local_ns), str(base)], cwd=DRIVER, env=env,
                       stdout=subprocess.PIPE, stderr=subprocess.STDOUT, text=True, timeout=900)
    m = re.search(r"RESULT (\w+)", p.stdout)
    return (m.group(1) if m else None), p.stdout[-800:]


def spec_ns(local_ns, base):
    if local_ns < 0:
        return False
    ms = local_ns // MS
    return 0 <= ms <= (1 << 64) - 1 and -BACKWARD_MS <= ms - base <= FORWARD_MS


def save_artifact(pid, kind, local_ns, base, extra):
    import kanirun
    d = os.path.join(VERIF, "replays" + kanirun.ALT, pid)
    os.makedirs(d, exist_ok=True)
    path = os.path.join(d, "%s-local_ns=%d-base=%d.json" % (kind, local_ns, base))
    json.dump({"kind": kind, "local_ns": local_ns, "base_ms": base, "valid_voucher": True, **extra}, open(path, "w"), indent=1)
    return path


def replay_values(pid, kind, local_ns, base):
    if not (MIN_LOCAL_NS <= local_ns <= MAX_LOCAL_NS):
        return None, "", "counterexample local time %d ns is outside the calendar range: not reachable through the public API" % local_ns
    got, out = run_driver(local_ns, base)
    want = spec_ns(local_ns, base)
    art = save_artifact(pid, kind, local_ns, base, {"native": got, "spec_accepts": want})
    if got is None:
        return None, art, "replay driver failed: " + out
    if got == "PANIC":
        return True, art, "native: VouchedTime::new panicked for local_ns=%d base=%d" % (local_ns, base)
    native_ok = got == "OK"
    if native_ok != want:
        return True, art, "native VouchedTime::new(local_ns=%d, base=%d, valid voucher) -> %s but the property %s" % (
            local_ns, base, got, "accepts" if want else "rejects")
    return False, art, "native run agrees with the property for local_ns=%d base=%d (%s)" % (local_ns, base, got)


def replay_kernel(f):
    mv = f["model"]
    l_ms = tosigned(mv.get("L", 0), 128)
    return replay_values("C14", "kernel", l_ms * MS, mv.get("B", 0))


def replay_compose(f):
    mv = f["model"]
    return replay_values("C14", "compose", tosigned(mv.get("N", 0), 128), mv.get("B", 0))


def replay(pid, art):
    a = json.load(open(art))
    ok, _art, detail = replay_values(pid, a["kind"], a["local_ns"], a["base_ms"])
    return bool(ok), detail


class C02LengthLemma:
    """Arithmetic instantiation of the C02 length bound for the production limits, over ALL lengths below 2^48
    (mathematical integers): a canonical encoding has one 1-byte header, and every chunk after the first costs a
    2-byte header.  A chunk closed by a stuff sequence drops those 2 input bytes (net 0); a chunk closed by its
    size limit costs 2 net bytes.  The first chunk can be size-closed at 252 bytes, later ones every 64008 bytes:
        closed(len) = 0                                   if len < 252
                    = 1 + floor((len - 252) / 64008)      otherwise
    and the claim is len + 1 + 2*closed(len) <= len + 1 + 2*ceil(len / 64008).
    The limits 252 / 64008 are tied to the code by the prod_limits harness (Engine K)."""
    name = "c02::length_bound_production_limits[smt]"

    def run(self, logdir):
        t0 = time.time()
        q = Queries(logdir, "c02-len")
        decls = ["(declare-const len Int)", "(declare-const closed Int)", "(declare-const ceilq Int)"]
        base = ["(>= len 0)", "(< len 281474976710656)",
                "(= closed (ite (< len 252) 0 (+ 1 (div (- len 252) 64008))))",
                "(= ceilq (div (+ len 64007) 64008))"]
        a, ans, model, path = q.ask("bound", decls, base + ["(> (+ len 1 (* 2 closed)) (+ len 1 (* 2 ceilq)))"])
        w, _, wm, _ = q.ask("tight", decls, base + ["(= closed ceilq)", "(> len 200000)"])
        status = "PASS" if a == "unsat" and w == "sat" else ("VIOLATION" if a == "sat" else "INCONCLUSIVE")
        r = result(self.name, status, reason="" if status == "PASS" else json.dumps(ans), checks_total=2, checks_nontrivial=2,
                   checks_ok=int(a == "unsat") + int(w == "sat"), queries=q.n, solver_s=q.solver_s,
                   functions=["(arithmetic lemma over the canonical chunking; constants pinned to hcobs::PROD_PARAMS by kani/hcobs prod::prod_limits_are_252_and_64008)"],
                   bounds="all input lengths 0 <= len < 2^48, mathematical integers",
                   covers={"the bound is tight for some len > 200000": "SATISFIED" if w == "sat" else "UNSATISFIABLE"},
                   samples=[{"query": "bound is tight", "model": mir.model_values(wm)}] if w == "sat" else [],
                   failed=[{"desc": "length bound lemma fails", "model": mir.model_values(model)}] if a == "sat" else [],
                   wall=time.time() - t0)
        if status == "VIOLATION":
            r["reproduced"], r["artifact"], r["detail"] = None, path, "arithmetic lemma (no native replay)"
        return [r]
