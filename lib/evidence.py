"""Evidence writer: /verif/evidence/<id>.json, rewritten on every run from what
the run measured (CBMC checks decided, SAT/SMT queries, solver seconds...)."""
import json
import os

VERIF = os.path.dirname(os.path.dirname(os.path.abspath(__file__)))


def write(pid, tier, seed, spec, out, wall, violations=0):
    results = out["results"]
    obligations = sum(r.get("checks_total", 0) for r in results)
    nontrivial = sum(r.get("checks_nontrivial", 0) for r in results)
    queries = sum(r.get("queries", 0) for r in results)
    solver_s = round(sum(r.get("solver_s", 0.0) for r in results), 2)
    functions = sorted({f for r in results for f in r.get("functions", [])})
    samples = []
    for r in results:
        for s in r.get("samples", []):
            if len(samples) < 12:
                samples.append(s)
    if not samples:
        for r in results[:3]:
            samples.append({"job": r["name"], "status": r["status"], "bounds": r.get("bounds", "")})
    jobs = []
    for r in results:
        jobs.append({
            "job": r["name"], "engine": r.get("engine", ""), "status": r["status"], "reason": r.get("reason", ""),
            "bounds": r.get("bounds", ""), "obligations": r.get("checks_total", 0),
            "reachable_obligations": r.get("checks_nontrivial", 0), "queries": r.get("queries", 0),
            "solver_s": round(r.get("solver_s", 0.0), 2), "wall_s": round(r.get("wall", 0.0), 1),
            "covers": r.get("covers", {}), "formula": r.get("formula", None),
        })
    undecided = [j["job"] for j in jobs if j["status"] == "INCONCLUSIVE"]
    ev = {
        "property_id": pid,
        "tier": tier,
        "seed": seed,
        "level": "model_checking",
        "coverage": {
            "evaluations": max(obligations, 0),
            "distinct_nontrivial": nontrivial,
            "rule": ("bounded symbolic model checking: each job is one harness (or one SMT query family) over symbolic "
                     "inputs, decided by a SAT/SMT solver for ALL values within the stated bounds; 'evaluations' counts the "
                     "proof obligations (CBMC properties incl. memory-safety/overflow/assertion checks and SMT queries) "
                     "decided by the solver in this run; 'distinct_nontrivial' counts those that are distinct "
                     "(harness, obligation id) and reachable (CBMC status SUCCESS/SATISFIED/FAILURE, not UNREACHABLE; "
                     "SMT queries answered sat/unsat by every solver asked)"),
            "samples": samples,
            "exhaustive": False,
            "obligations": obligations,
            "discharged": sum(r.get("checks_ok", 0) for r in results),
            "queries": queries,
            "solver_s": solver_s,
            "functions_encoded": functions,
            "bounds": spec.bounds(tier),
            "outside_the_claim": spec.outside,
            "jobs": jobs,
            "not_decided": undecided,
            "checker_cmd": "./check %s --tier %s" % (pid, tier),
            "trusted_base": spec.trusted,
        },
        "assumptions": spec.assumptions,
        "wall_s": round(wall, 1),
        "violations": violations,
    }
    # schema: model_checking falls back to the generic keys (evaluations >= 1, distinct_nontrivial >= 2)
    import kanirun
    evdir = os.path.join(VERIF, "evidence") if not kanirun.ALT else os.path.join(VERIF, ".work", "evidence" + kanirun.ALT)
    os.makedirs(evdir, exist_ok=True)
    path = os.path.join(evdir, pid + ".json")
    with open(path + ".tmp", "w") as f:
        json.dump(ev, f, indent=1, default=str)
    os.replace(path + ".tmp", path)
    return path
