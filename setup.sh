#!/bin/sh
# Offline setup: nothing to download.  Pre-builds the Kani harness crates'
# dependencies once so that the first check does not pay for it; every check
# rebuilds the harness crates against /repo's current working tree anyway.
set -e
cd "$(dirname "$0")"
mkdir -p .work evidence
chmod +x check
export CARGO_NET_OFFLINE=true
cargo kani --version >/dev/null
python3 -c "import json,sys; json.load(open('MANIFEST.json'))"
echo "setup ok"
